"""Property registry: theorems, generated files, correspondence families, trusted base."""
import json, os, re
import vlib
import families as F
from vlib import Rng, hx, unhx

SEARCH_MULT = 20.0

TRUSTED_BASE = [
    "Lean 4.33.0 kernel; axioms allowed: propext, Classical.choice, Quot.sound (audited with #print axioms on every run)",
    "no sorry/admit/native_decide/bv_decide/axiom in lean/ (grep on every run)",
    "hand-written Lean model of the C code, tied to /repo by the correspondence families listed in coverage.families",
    "translators/gen.py for the generated parts of the model",
    "gcc, AddressSanitizer, the C executor harness/exec.c, the python orchestrator",
]


def build_variant(variant):
    if variant == "A":
        return vlib.build_harness("A", exe_sources=EXEC_SOURCES)
    if variant == "tsan":
        return vlib.build_harness("tsan", sanitize="thread", exe_sources=EXEC_SOURCES)
    if variant == "plain":
        return vlib.build_harness("plain", sanitize=None, exe_sources=EXEC_SOURCES)
    if variant == "sched":
        return vlib.build_tpdrv()
    raise ValueError(variant)

EXEC_SOURCES = tuple(s for s in ("exec.c", "ops_table.c", "ops_codec.c", "ops_merger.c", "ops_sorter.c", "ops_fileset.c", "ops_misc.c", "ops_mt.c", "ops_res.c", "ops_big.c")
                     if os.path.exists(os.path.join(vlib.HARNESS, s)))


def match_known(known, pid, why, lines):
    for k in known.get("findings", []):
        if k["property"] != pid:
            continue
        if re.search(k["signature"], why) or any(re.search(k["signature"], l) for l in lines):
            return k
    return None


# ---------------------------------------------------------------------------------------------
class Family:
    name = "?"
    variant = "A"
    def cases(self, pid, seed, tier, mult, stats):
        raise NotImplementedError
    def run(self, exe, lines):
        return vlib.run_script(exe, lines)
    def oracle(self, res):
        return []
    def tie_props(self, res, idx):
        return set()
    def nontrivial(self, pid, lines, res):
        return len(lines) > 3
    def keep_prefix(self, lines):
        return 0
    def valid(self, lines):
        """is this (shrunk) script still a well-formed case of the family?"""
        return True
    def corpus(self, pid):
        d = os.path.join(vlib.VERIF, "corpus", pid)
        out = []
        if os.path.isdir(d):
            for fn in sorted(os.listdir(d)):
                if fn.endswith(".case"):
                    lines = [l for l in open(os.path.join(d, fn)).read().split("\n") if l and not l.startswith("#")]
                    head = open(os.path.join(d, fn)).readline()
                    if ("family=" + self.name) in head:
                        out.append(("corpus:" + fn, lines))
        return out


def budget(tier, quick, thorough, mult):
    return max(1, int((quick if tier == "quick" else thorough) * mult))


# ------------------------------------------------------------------ table family
class TableFamily(Family):
    name = "table"
    # which sub-distribution to emphasise per property
    MODES = {"C01": "sorted", "C02": "sorted", "C03": "sorted", "C08": "unsorted", "C09": "mixed", "C10": "mixed"}
    def cases(self, pid, seed, tier, mult, stats):
        for c in self.corpus(pid):
            yield c
        if pid in ("C02", "C03"):
            # small-scope exhaustive part: on small tables, every (state reached by a prelude, seek target) pair
            for i in range(budget(tier, 10, 300, mult)):
                rng = Rng(seed * 3000017 + i * 11 + vlib.hash_tag(pid) % 1000)
                yield ("table:sys:%d:%d" % (seed, i), F.gen_table_systematic(rng, stats))
        if pid in ("C10", "C09"):
            # the index block's own length prefix at its one-/two- and two-/three-byte boundaries: tables whose index block
            # contents are 117..137 and 16372..16388 bytes long (one entry, the key length swept; plus a few short entries
            # before it), so that "bytes occupied by the index block" is told apart from "length of its contents"
            k0 = seed % 3
            for j, kl in enumerate(list(range(105 + k0, 126, 1 if tier == "thorough" else 1)) + list(range(16360, 16377))):
                rng = Rng(seed * 1000003 + 77 * kl)
                last = bytes([0x6b]) + bytes(rng.below(256) for _ in range(kl - 1))
                pre = [] if j % 3 else [bytes([0x61, 0x30 + d]) for d in range(j % 4)]
                stats.bump("index_block_length_at_varint_boundary")
                yield ("table:ixlen:%d:%d" % (seed, kl), F.gen_table_case(rng, stats, mode="sorted", comp=0, small=False, keys_override=pre + [last]))
        n = budget(tier, 250, 4000, mult)
        for i in range(n):
            rng = Rng(seed * 1000003 + i * 7 + vlib.hash_tag(pid) % 1000)
            small = not (i % 10 == 9)
            # every fifth table is written through a thread pool (0 = a pool object without threads, 1, 2, 4)
            pool = [0, 1, 2, 4][(i // 5) % 4] if i % 5 == 4 else None
            if pool is not None:
                stats.bump("writer_pool_%d" % pool)
            yield ("table:%d:%d" % (seed, i), F.gen_table_case(rng, stats, mode=self.MODES.get(pid, "mixed"), small=small, pool=pool))
    def oracle(self, res):
        return F.oracle_table(res)
    def keep_prefix(self, lines):
        return 2
    def tie_props(self, res, idx):
        t = res[idx]["req"].split(" ")
        op = t[0]
        if op == "w.add":
            return {"C08"}
        if op == "w.fin":
            a, b = res[idx]["real"], res[idx]["model"]
            if a.startswith("file ") and b.startswith("file ") and len(a) == len(b):
                ha, hb = a[5:], b[5:]
                # bytes differ only inside the nine counter fields of the trailer: that is C10's business alone
                if len(ha) >= 1024 and ha[:-1024] == hb[:-1024] and ha[-1024 + 144:] == hb[-1024 + 144:]:
                    return {"C10"}
            return {"C09", "C01", "C10"}
        if op == "w.prefix":
            return {"C09"}
        if op == "tool.dump":
            return {"C01"}
        if op == "tool.info":
            return {"C10"}
        if op == "r.openw":
            return {"C10", "C01"}
        if op in ("r.next", "r.seek", "r.it"):
            iid = t[2] if op == "r.it" else t[1]
            kind, seeked = None, False
            for r in res[:idx + 1]:
                tt = r["req"].split(" ")
                if tt[0] == "r.it" and tt[2] == iid:
                    kind = tt[3]; seeked = False
                if tt[0] == "r.seek" and tt[1] == iid:
                    seeked = True
            if seeked:
                return {"C03"}
            return {"C01"} if kind == "iter" else {"C02"}
        return set()
    def nontrivial(self, pid, lines, res):
        # at least two data blocks and at least 3 accepted entries
        for r in res:
            if r["req"].startswith("r.openw") and r["real"].startswith("ok "):
                f = r["real"].split(" ")
                return int(f[6]) >= 2 and int(f[5]) >= 3
        return False


# ------------------------------------------------------------------ codec family (C16)
class CodecFamily(Family):
    name = "codec"
    def cases(self, pid, seed, tier, mult, stats):
        rng = Rng(seed * 7919 + 11)
        vals = set()
        for k in range(0, 65):
            for d in (-1, 0, 1):
                v = (1 << k) + d
                if 0 <= v < (1 << 64):
                    vals.add(v)
        for k in range(64):
            vals.add(((1 << 64) - 1) ^ (1 << k))       # walking zero
            vals.add((1 << 64) - (1 << k))
        for _ in range(budget(tier, 600, 20000, mult)):
            bits = rng.below(65)
            vals.add(rng.next() & ((1 << bits) - 1) if bits else 0)
        vals = sorted(vals)
        chunk = 400
        for ci in range(0, len(vals), chunk):
            lines = []
            for v in vals[ci:ci + chunk]:
                al = rng.below(8)
                stats.bump("bitlen=%d" % (v.bit_length() // 8 * 8))
                if v < (1 << 32):
                    lines.append("venc32 %d %d" % (v, al))
                    lines.append("fix32 %d %d" % (v, al))
                lines.append("venc64 %d %d" % (v, al))
                lines.append("vlen %d" % v)
                lines.append("fix64 %d %d" % (v, al))
                enc = leb(v)
                tail = bytes(rng.below(256) for _ in range(rng.pick([0, 1, 2, 2, 7, 8, 9, 12])))   # bytes available beyond the encoding
                lines.append("vdec64 %s %d" % (hx(enc + tail), rng.below(8)))
                if v < (1 << 32):
                    lines.append("vdec32 %s %d" % (hx(enc + tail), rng.below(8)))
                lines.append("vlenp %s %d" % (hx(enc + tail), rng.below(8)))
                if rng.chance(1, 3):
                    # the caller's result object overlaps the encoded bytes (at data + off, 8-aligned)
                    al2, off = rng.pick([(0, 0), (0, 0), (0, 8), (7, 1), (4, 4), (6, 2)])
                    lines.append("vdec64 %s %d alias%d" % (hx(enc + tail), al2, off)); stats.bump("varint_decode_result_overlaps_input")
                    if v < (1 << 32):
                        lines.append("vdec32 %s %d alias%d" % (hx(enc + tail), al2, off))
                if len(enc) > 1:
                    lines.append("vlenp %s %d" % (hx(enc[:-1]), rng.below(8)))   # truncated
                if rng.chance(1, 6):
                    # the same encoding at the start of a readable region of 2^32 + extra bytes (a size_t that does not fit 32 bits)
                    lines.append("vlenpbig %s %d" % (hx(enc), rng.pick([0, 1, len(enc) - 1, len(enc), 9, 10, 4096]))); stats.bump("varint_length_packed_4GiB_region")
                lines.append("dfix64 %s %d" % (hx(v.to_bytes(8, "little")), rng.below(8)))
                if v < (1 << 32):
                    lines.append("dfix32 %s %d" % (hx(v.to_bytes(4, "little")), rng.below(8)))
            # over-long inputs
            lines.append("vdec32 %s 0" % hx(b"\x80" * 5 + b"\x01"))
            lines.append("vdec64 %s 0" % hx(b"\xff" * 10 + b"\x01"))
            lines.append("vdec32 %s 3" % hx(b"\xff" * 4 + b"\x7f"))     # 5th byte contributes bits beyond 32: truncation
            lines.append("vdec64 %s 5" % hx(b"\xff" * 9 + b"\x7f"))
            yield ("codec:%d:%d" % (seed, ci), lines)
        if tier == "thorough":
            yield ("codec:sweep32", ["codec.sweep32 0 4294967296"])
    def oracle(self, res):
        fails = []
        for i, r in enumerate(res):
            t = r["req"].split(" "); real = r["real"]
            if real in ("asan", "abort") or real.startswith("crash"):
                fails.append(("C16", "codec op died: %s" % real, i)); break
            if t[0] in ("venc32", "venc64"):
                if real != "bytes " + hx(leb(int(t[1]))):
                    fails.append(("C16", "%s %s gave %s, standard form is %s" % (t[0], t[1], real, hx(leb(int(t[1])))), i))
            elif t[0] == "vlen":
                if real != "n %d" % len(leb(int(t[1]))):
                    fails.append(("C16", "varint_length(%s) = %s" % (t[1], real), i))
            elif t[0] in ("vdec32", "vdec64"):
                d = unhx(t[1]); v, n = unleb(d, 5 if t[0] == "vdec32" else 10)
                if n and v < (1 << (32 if t[0] == "vdec32" else 64)) and leb(v) == d[:n]:
                    if real != "val %d %d" % (v, n):
                        fails.append(("C16", "%s of %s gave %s, expected %d %d" % (t[0], t[1], real, v, n), i))
                elif n == 0 and real != "val 0 0":
                    fails.append(("C16", "%s of over-long %s gave %s" % (t[0], t[1], real), i))
            elif t[0] == "vlenp":
                d = unhx(t[1]); n = next((j + 1 for j, c in enumerate(d) if c < 128), 0)
                if real != "n %d" % n:
                    fails.append(("C16", "length_packed(%s) = %s, expected %d" % (t[1], real, n), i))
            elif t[0] == "vlenpbig":
                d = unhx(t[1]) + bytes(12); n = next((j + 1 for j, c in enumerate(d) if c < 128), 0)
                if real != "n %d" % n and real != "nomem":
                    fails.append(("C16", "length_packed(%s, 2^32+%s bytes available) = %s, expected %d" % (t[1], t[2], real, n), i))
            elif t[0] in ("fix32", "fix64"):
                w = 4 if t[0] == "fix32" else 8
                if real != "bytes " + hx(int(t[1]).to_bytes(w, "little")):
                    fails.append(("C16", "%s %s gave %s" % (t[0], t[1], real), i))
            elif t[0] in ("dfix32", "dfix64"):
                w = 4 if t[0] == "dfix32" else 8
                if real != "val %d" % int.from_bytes(unhx(t[1])[:w], "little"):
                    fails.append(("C16", "%s %s gave %s" % (t[0], t[1], real), i))
            elif t[0] == "codec.sweep32":
                if " bad 0 " not in real + " ":
                    fails.append(("C16", "exhaustive 32-bit sweep: " + real, i))
        return fails
    def tie_props(self, res, idx):
        return {"C16"}
    def nontrivial(self, pid, lines, res):
        return True


def leb(v):
    out = bytearray()
    while v >= 128:
        out.append((v & 0x7f) | 0x80); v >>= 7
    out.append(v)
    return bytes(out)

def unleb(d, maxn):
    v = 0
    for i, c in enumerate(d[:maxn]):
        v |= (c & 0x7f) << (7 * i)
        if c < 128:
            return v, i + 1
    return 0, 0


# ------------------------------------------------------------------ crc family (C17)
def crc32c_ref(data):
    crc = 0xFFFFFFFF
    for b in data:
        crc ^= b
        for _ in range(8):
            crc = (crc >> 1) ^ (0x82F63B78 if crc & 1 else 0)
    return crc ^ 0xFFFFFFFF

class CrcFamily(Family):
    name = "crc"
    def cases(self, pid, seed, tier, mult, stats):
        rng = Rng(seed * 104729 + 5)
        impls = ["api", "slicing", "sse42"]
        # every length 0..L at every alignment
        L = 1100 if tier == "thorough" else 140
        base = bytes(rng.below(256) for _ in range(L + 8))
        lines = []
        for n in range(L + 1):
            for al in range(8):
                if tier == "quick" and n > 40 and (n + al) % 5:
                    continue
                lines.append("crc %s %d %s" % (impls[(n + al) % 3], al, hx(base[al:al + n])))
                stats.bump("len<=16" if n <= 16 else "len<=140" if n <= 140 else "len>140")
            if len(lines) >= 500:
                yield ("crc:len:%d" % n, lines); lines = []
        if lines:
            yield ("crc:len:end", lines)
        # every byte value at every position modulo 8 (reaches every entry of all eight slicing tables)
        lines = []
        for pos in range(8):
            for v in range(256):
                buf = bytearray(24); buf[8 + pos] = v
                for impl in (["slicing", "sse42"] if tier == "thorough" else [impls[1 + (v & 1)]]):
                    lines.append("crc %s %d %s" % (impl, 0, hx(bytes(buf))))
        yield ("crc:bytevals", lines)
        # tens of kilobytes to megabytes at every alignment (size thresholds inside an implementation, e.g. a "large buffer"
        # path), against an independent bytewise reference computed in the harness
        mids = [65535, 65536, 65537, 100003, 1 << 20, (1 << 20) + 13] + ([5000011, 16777216 + 5] if tier == "thorough" else [])
        yield ("crc:mid", ["crc.big %d %d" % (n, al) for n in mids for al in range(8)]); stats.bump("crc_64KiB_to_MiB_all_alignments")
        # the function is pure: concurrent calls on different (misaligned) buffers must not disturb one another
        yield ("crc:mt", ["crc.mt 4 8191 %d" % (3000 if tier == "quick" else 40000), "crc.mt 6 60001 %d" % (400 if tier == "quick" else 6000)]); stats.bump("crc_concurrent_calls")
        # the same buffer checksummed again after a change in the middle (the result depends on the bytes only)
        yield ("crc:hist", ["crc.hist %d %d" % (n, 12 if tier == "quick" else 200) for n in (64, 1023, 1024, 4096, 8192, 70000)]); stats.bump("crc_same_buffer_changed_in_the_middle")
        # the first call of the process through the dispatch pointer (made from a constructor that runs before the library's own,
        # so it goes through the initial trampoline) returns the CRC-32C too
        yield ("crc:early", ["crc.early"]); stats.bump("crc_first_call_through_the_trampoline")
        # buffers beginning, ending and crossing a page boundary, and buffers ending right before an unmapped page
        yield ("crc:edge", ["crc.edge %d" % (40 if tier == "quick" else 300)]); stats.bump("crc_page_edges")
        # buffers of 4 GiB and more (size_t arithmetic of the loops): thorough tier, and whenever the case budget is enlarged
        # because a proof obligation or the tie broke
        if tier == "thorough" or mult > 1.5:
            yield ("crc:big", ["crc.big %d %d" % (n, al) for n, al in [((1 << 32) - 1, 0), (1 << 32, 0), ((1 << 32) + 11, 5), ((1 << 32) + 4096 + 7, 3)]])
        # random buffers
        lines = []
        for i in range(budget(tier, 60, 2000, mult)):
            n = rng.pick([rng.below(64), rng.below(4096), rng.below(70000) if tier == "thorough" else rng.below(9000)])
            buf = bytes(rng.below(256) for _ in range(n))
            lines.append("crc %s %d %s" % (rng.pick(impls), rng.below(8), hx(buf)))
            stats.bump("random_buffers")
            if len(lines) >= 40:
                yield ("crc:rand:%d" % i, lines); lines = []
        if lines:
            yield ("crc:rand:end", lines)
    def oracle(self, res):
        fails = []
        for i, r in enumerate(res):
            t = r["req"].split(" ")
            if t[0] == "crc.big":
                f = dict(x.split("=") for x in r["real"].split(" ")[1:] if "=" in x)
                vals = set(v for v in f.values() if v != "unsupported")
                if r["real"].startswith("big ") and len(vals) > 1:
                    fails.append(("C17", "buffer of %s bytes at alignment %s: the implementations disagree%s: %s" % (t[1], t[2], " with the standard CRC-32C (ref)" if "ref" in f else "", r["real"]), i))
                continue
            if t[0] == "crc.hist":
                if not r["real"].startswith("hist ok"):
                    fails.append(("C17", "the same %s-byte buffer checksummed again after one byte in it changed: %s (implementation:round; the value is not the CRC-32C of the buffer's current bytes)" % (t[1], r["real"]), i))
                continue
            if t[0] == "crc.early":
                if r["real"].startswith("early wrong"):
                    fails.append(("C17", "the first mtbl_crc32c call of the process (before the library's constructor has run: through the initial trampoline): %s (not the CRC-32C of the buffer; later calls on the same buffer are right)" % r["real"], i))
                continue
            if t[0] == "crc.edge":
                if not r["real"].startswith("edge ok") and not r["real"].startswith("edge unavailable"):
                    fails.append(("C17", "buffers around a 4 KiB page boundary: %s (implementation:start offset in the page:length; the value is not the standard CRC-32C, or the call died reading past the buffer)" % r["real"], i))
                continue
            if t[0] == "crc.mt":
                if not r["real"].startswith("mt ok"):
                    fails.append(("C17", "%s threads checksumming their own %s-byte buffers concurrently: %s (a result is not the CRC-32C of its buffer)" % (t[1], t[2], r["real"]), i))
                continue
            if t[0] != "crc":
                continue
            if r["real"] == "unsupported":
                r["model"] = "unsupported"     # host CPU without SSE4.2: nothing to compare
                continue
            want = "crc %d" % crc32c_ref(unhx(t[3]))
            if r["real"] != want:
                fails.append(("C17", "crc32c[%s] align=%s len=%d gave %s, standard CRC-32C is %s" % (t[1], t[2], len(unhx(t[3])), r["real"], want), i))
        return fails
    def tie_props(self, res, idx):
        return {"C17"}
    def nontrivial(self, pid, lines, res):
        return True


# ------------------------------------------------------------------ open family (C19)
class OpenFamily(Family):
    name = "open"
    def cases(self, pid, seed, tier, mult, stats):
        n = budget(tier, 30, 300, mult)
        for i in range(n):
            rng = Rng(seed * 15485863 + i)
            # stage 1: a small valid table (v2, compression none) built by the real writer
            yield ("open:%d:%d" % (seed, i), ["#gen-open %d %d %s" % (seed, i, tier)])
    def run(self, exe, lines):
        if not lines or not lines[0].startswith("#gen-open"):
            return vlib.run_script(exe, lines)
        _, seed, i, tier = lines[0].split(" ")
        rng = Rng(int(seed) * 15485863 + int(i))
        st = F.Stats()
        tl = F.gen_table_case(rng, st, mode="sorted", comp=0, small=True, nkeys=rng.pick([0, 1, 2, 5, 12]))
        tl = [l.split(" ", 1)[1] if l.startswith("@") else l for l in tl]
        tl = [l for l in tl if l.startswith(("reset", "w."))]
        tl[1] = " ".join(a for a in tl[1].split(" ") if not a.startswith(("pre=", "thr="))) + " pre=-"
        res1 = vlib.run_script(exe, tl)
        fin = [r for r in res1 if r["req"].startswith("w.fin")]
        if not fin or not fin[0]["real"].startswith("file "):
            return res1
        good = unhx(fin[0]["real"].split(" ")[1])
        blobs = mutate_file(rng, good, 40 if tier == "quick" else 160)
        probe = ["open.probe %s verify=%d byfd=%d madv=%d" % (hx(b), rng.below(2), rng.below(2), rng.below(2)) for b in blobs]
        self.last_probe_lines = probe
        return vlib.run_script(exe, probe)
    def oracle(self, res):
        fails = []
        for i, r in enumerate(res):
            if not r["req"].startswith("open.probe"):
                continue
            if r["real"] in ("ok", "null", "abort"):
                continue
            if r["real"] == "leak":
                fails.append(("C18", "opening %d bytes (%s) returned to the caller — a reader that was destroyed again, or NULL — and left a memory mapping behind" % (len(unhx(r["req"].split(" ")[1])), " ".join(r["req"].split(" ")[2:])), i))
                continue
            fails.append(("C19", "opening %d bytes ended in %s (reads outside the file / crash)" % (len(unhx(r["req"].split(" ")[1])), r["real"]), i))
        return fails
    def tie_props(self, res, idx):
        return {"C19", "C18"}
    def nontrivial(self, pid, lines, res):
        return any(r["real"] in ("null", "abort") for r in res) and any(r["real"] == "ok" for r in res)


BOUNDARY = [0, 1, 2, 3, 4, 7, 8, 12, 13, 14, 15, 16, 17, 127, 128, 255, 256, 511, 512, 513, 0x7fffffff, 0x80000000, 0xffffffff,
            0x100000000, 0x7fffffffffffffff, 0x8000000000000000, 0xffffffffffffffff, 0xfffffffffffffdf2, 0xfffffffffffffe00]

def mutate_file(rng, good, n):
    out = [good]
    L = len(good)
    io = int.from_bytes(good[L - 512:L - 504], "little")
    for _ in range(n):
        b = bytearray(good)
        r = rng.below(15)
        if r == 14:     # the index block's stored checksum, or a byte of its contents (a verifying open stops or refuses; others open)
            ln, nn = F.varint(good, io)
            if ln is not None and io + nn + 4 <= L - 512:
                at = io + nn + (rng.below(4) if rng.chance(1, 2) or not ln else 4 + rng.below(ln))
                if at < L - 512:
                    b[at] ^= 1 << rng.below(8)
        elif r >= 12:     # two fields together: the index offset moved close to the trailer AND a length prefix of every width there
            g = rng.pick([13, 13, 13, 12, 14, 8, 9, 16, 17, 22, 4, 5])
            io2 = L - 512 - g
            if io2 >= 0:
                v = rng.pick([0, 1, 8, 9, 127, 128, 1 << 14, 1 << 21, 1 << 28, 1 << 35, 1 << 42, 1 << 49, 1 << 56, (1 << 63) - 1, 1 << 63, (1 << 64) - 1, L, g - 5, g - 14])
                pre = F_leb(max(0, v) % (1 << 64))
                if rng.chance(1, 3):      # over-long (zero-padded) encoding of a small value, 2..10 bytes
                    k = rng.pick([2, 5, 9, 10])
                    pre = bytes([0x80 | (max(0, v) & 0x7f)]) + b"\x80" * (k - 2) + b"\x00"
                b[L - 512:L - 504] = io2.to_bytes(8, "little")
                b[io2:io2 + len(pre)] = pre[:max(0, L - 512 - io2)] if rng.chance(1, 8) else pre
                b = b[:L] if len(b) >= L else b
        elif r == 0:      # index offset field
            v = rng.pick(BOUNDARY + [io + d for d in (-2, -1, 1, 2, 13)] + [L - 512 - d for d in range(0, 20)])
            b[L - 512:L - 504] = (v % (1 << 64)).to_bytes(8, "little")
        elif r == 1:    # index length prefix (varint)
            pre = rng.pick([b"\xff\xff\xff\xff\x0f", b"\xff" * 9 + b"\x01", b"\xff" * 10, b"\x80\x80\x80\x80\x10", bytes([rng.below(256)]),
                            F_leb(rng.pick(BOUNDARY) % (1 << 64)), F_leb(L), F_leb(L - io), F_leb(max(0, L - 512 - io - 5 + rng.below(5) - 2))])
            b[io:io + len(pre)] = pre
        elif r == 2:    # magic: v1, bad
            b[L - 4:L] = rng.pick([bytes.fromhex("76668477"), b"\x00\x00\x00\x00", bytes(rng.below(256) for _ in range(4))])
        elif r == 3:    # v1 magic + fixed32 length at the index offset
            b[L - 4:L] = bytes.fromhex("76668477")
            v = rng.pick(BOUNDARY) % (1 << 32)
            b[io:io + 4] = v.to_bytes(4, "little")
        elif r == 4:    # truncate
            cut = rng.pick([rng.below(L + 1), L - 1, L - 511, L - 512, L - 513, 512, 511, 0])
            b = b[:max(0, cut)]
        elif r == 5:    # random bytes of various sizes
            b = bytearray(rng.below(256) for _ in range(rng.pick([0, 1, 511, 512, 513, 525, 526, 600, 1024])))
        elif r == 6:    # random bytes with a valid magic
            n2 = rng.pick([512, 525, 526, 540, 700]); b = bytearray(rng.below(256) for _ in range(n2)); b[-4:] = bytes.fromhex("4c42544d")
            if rng.chance(1, 2):
                b[n2 - 512:n2 - 504] = rng.below(n2).to_bytes(8, "little")
        elif r == 7:    # restart count of the index block
            ilen_off = io
            v, nn = F.varint(good, io)
            if v is not None and io + nn + 4 + v <= L:
                cnt_off = io + nn + 4 + v - 4
                b[cnt_off:cnt_off + 4] = (rng.pick(BOUNDARY) % (1 << 32)).to_bytes(4, "little")
        elif r == 8:    # any counter field
            k = rng.below(9)
            b[L - 512 + 8 * k:L - 504 + 8 * k] = (rng.pick(BOUNDARY) % (1 << 64)).to_bytes(8, "little")
        elif r == 9:    # flip a byte in the index frame
            if L - 512 > io:
                p = io + rng.below(L - 512 - io); b[p] ^= 1 << rng.below(8)
        elif r == 10:   # extend / shrink the gap before the trailer
            b = bytearray(good[:L - 512]) + bytearray(rng.below(256) for _ in range(rng.below(20))) + bytearray(good[L - 512:])
        else:           # single random byte anywhere
            if L:
                p = rng.below(L); b[p] = rng.below(256)
        out.append(bytes(b))
    return out

def F_leb(v):
    return leb(v)


FAMILIES = {"table": TableFamily, "codec": CodecFamily, "crc": CrcFamily, "open": OpenFamily}

def family_for(pid, name):
    return FAMILIES[name]()


# ---------------------------------------------------------------------------------------------
def thm(ns, names):
    return ["Mtbl.%s.%s" % (ns, n) for n in names]

PROPS = {
    "C16": {
        "module": "MtblProps.C16",
        "theorems": thm("C16", ["C16_roundtrip32", "C16_roundtrip64", "C16_enc32_eq_enc64", "C16_cross", "C16_length_packed",
                                "C16_standard_form", "C16_truncated", "C16_overlong32", "C16_overlong64", "C16_fixed32", "C16_fixed64",
                                "C16_fixed32_inv", "C16_fixed64_inv"]),
        "families": ["codec"],
        "rule": "codec ops on all bit-length boundaries 2^k-1,2^k,2^k+1 (k=0..64), walking zeros/ones, random values of random bit length, random trailing bytes, truncated and over-long inputs, every address alignment 0..7; thorough adds the exhaustive 2^32 sweep in C; non-trivial = every case (each is a distinct value set)",
        "assumptions": ["address alignment does not exist in the model: exercised at run time only", "little-endian host (htole32 is the identity): the model states the little-endian byte order directly"],
    },
    "C17": {
        "module": "MtblProps.C17",
        "theorems": thm("C17", ["C17_slicing_eq_spec", "C17_sse42_eq_spec", "C17_tables_generated", "C17_lanes_generated", "C17_tail_generated", "C17_dispatch", "C17_check_value"]),
        "generated": ["CrcTables", "Sse42Tail"],
        "families": ["crc"],
        "rule": "buffers of every length 0..L at alignments 0..7 (L=140 quick with thinning above 40, 1100 thorough), every byte value at every position mod 8, random buffers up to 9 KB (70 KB thorough), through mtbl_crc32c, my_crc32c_slicing and my_crc32c_sse42 directly; oracle = bitwise CRC-32C in python",
        "trusted": ["the x86 crc32 instruction computes the bytewise CRC-32C update over its operand's little-endian bytes (contract; exercised on this host if SSE4.2 is present)"],
        "assumptions": ["unaligned little-endian loads behave as on x86"],
    },
    "C19": {
        "module": "MtblProps.C19",
        "theorems": thm("C19", ["C19_safe", "C19_outcomes", "C19_index_inside", "F9_witness", "F9_fixed"]),
        "families": ["open"],
        "rule": "valid v2 tables from the real writer, then field-wise mutations (index offset, index length prefix in both versions, magics, restart count, counters), truncations at and around every boundary, random bytes with/without magic; each opened in a child process through an exact-size mmap shim under ASan, with and without verify_checksums, by name and by descriptor; non-trivial = the batch produced both successful and refused opens",
        "assumptions": ["mmap is replaced by an exact-size heap copy so that the first byte past the file is poisoned", "asserts are enabled (the repository's flags never define NDEBUG)"],
    },
    "C08": {
        "module": "MtblProps.C08",
        "theorems": thm("C08", ["C08_gate", "C08_refused_noop", "C08_lastkey", "C08_history", "C08_accepted_sorted", "C08_no_abort", "C08_excl", "F11_accepted", "F11_witness"]),
        "generated": ["Constants"],
        "families": ["table", "excl", "usedw", "huge"],
        "thorough_variants": ["plain"],
        "rule": "arbitrary (unsorted) add sequences: duplicates, smaller keys, proper prefixes/extensions, bytes >= 0x80, refusals around block cuts (block sizes down to 16 bytes via the run-time minimum); pre-existing target paths; mtbl_sorter_write into writers that already hold entries (the library's own caller of the gate); non-trivial = >= 2 data blocks and >= 3 accepted entries",
        "assumptions": ["open(2) with O_CREAT|O_EXCL fails on an existing path and leaves it untouched (POSIX contract)", "entries shorter than 4 GiB: longer ones are accepted and truncated (finding F11, listed in known_findings.json, proved as F11_accepted / F11_witness, reproduced on the real code by the thorough tier's wa.huge probe)"],
    },
}


class ExclFamily(Family):
    name = "excl"
    def cases(self, pid, seed, tier, mult, stats):
        rng = Rng(seed * 31337 + 3)
        lines = []
        for i in range(budget(tier, 30, 300, mult)):
            kind = rng.pick(["regular", "regular", "dangling", "none", "symlink", "symlink", "devnull", "fifo", "dir"])
            content = bytes(rng.below(256) for _ in range(rng.pick([0, 0, 1, 10, 600])))
            stats.bump("excl_" + kind + ("_empty" if kind in ("regular", "symlink") and not content else ""))
            lines.append("excl.probe kind=%s content=%s" % (kind, hx(content) if kind in ("regular", "symlink") else "-"))
        yield ("excl:%d" % seed, lines)
    def oracle(self, res):
        fails = []
        for i, r in enumerate(res):
            t = r["req"].split(" ")
            kv = dict(a.split("=", 1) for a in t[1:])
            if kv["kind"] == "none":
                if r["real"] != "ok":
                    fails.append(("C08", "writer_init on a fresh path returned %s" % r["real"], i))
            elif kv["kind"] == "regular":
                if r["real"] != "null " + kv["content"]:
                    fails.append(("C08", "writer_init on an existing file: %s (file must be refused and left untouched)" % r["real"][:80], i))
            elif kv["kind"] == "symlink":
                if r["real"] != "null " + kv["content"]:
                    fails.append(("C08", "writer_init on a symbolic link to an existing file: %s (path must be refused, link and target left untouched)" % r["real"][:80], i))
            elif kv["kind"] in ("devnull", "fifo", "dir"):
                if r["real"] != "null special":
                    fails.append(("C08", "writer_init on an existing %s: %s (an existing path must be refused)" % (kv["kind"], r["real"][:80]), i))
            else:
                if r["real"] != "null dangling":
                    fails.append(("C08", "writer_init on a dangling symlink: %s" % r["real"], i))
        return fails
    def tie_props(self, res, idx):
        return {"C08"}
    def nontrivial(self, pid, lines, res):
        return True

FAMILIES["excl"] = ExclFamily


class HugeFamily(Family):
    """finding F11 (known, not repaired): an entry of 2^32 + 5 bytes through the real writer and reader.  Thorough tier only:
    it writes a 4 GiB file (removed afterwards) and needs a build without sanitizers to finish in about a minute."""
    name = "huge"
    variant = "plain"
    def cases(self, pid, seed, tier, mult, stats):
        if tier == "thorough":
            stats.bump("entry_of_4GiB_plus_5_bytes")
            yield ("huge:f11", ["wa.huge 5"])
    def oracle(self, res):
        fails = []
        for i, r in enumerate(res):
            if not r["req"].startswith("wa.huge"):
                continue
            n = (1 << 32) + int(r["req"].split(" ")[1])
            real = r["real"]
            if real == "nomem":
                continue
            kv = dict(a.split("=", 1) for a in real.split(" ") if "=" in a)
            adds = kv.get("add", "?").split(",")
            if adds[0] != "ok":
                fails.append(("C08", "mtbl_writer_add refused the first entry of a table (value of %d bytes): the gate must accept any key when nothing was accepted yet" % n, i))
            elif not (kv.get("read") == "2" and kv.get("lens") == "%d,1" % n and kv.get("end") == "eof"):
                fails.append(("C08", "F11: mtbl_writer_add accepted a value of %d bytes as the first entry of a table and the finished file does not hold it: reading it back gives %s" % (n, real[:120]), i))
        return fails
    def tie_props(self, res, idx):
        return set()
    def nontrivial(self, pid, lines, res):
        return True

FAMILIES["huge"] = HugeFamily


class UsedWriterFamily(Family):
    """C08 through the library's own caller of mtbl_writer_add: mtbl_sorter_write into a writer that has already accepted
    entries.  The gate applies to every add, whoever makes it: the sorter's entries that do not sort after the writer's
    last key are refused (mtbl_sorter_write stops and reports failure), and the finished file holds exactly the accepted
    entries, strictly ascending."""
    name = "usedw"
    def cases(self, pid, seed, tier, mult, stats):
        for i in range(budget(tier, 60, 900, mult)):
            rng = Rng(seed * 7000003 + i * 19)
            st = F.Stats()
            keys = sorted(set(F.gen_keys(rng, rng.pick([2, 4, 7]), st, long_ok=False)))
            if len(keys) < 2:
                continue
            head = rng.pick([0, 1, 1, 2])
            hk = sorted(rng.pick(keys) for _ in range(head)); hk = sorted(set(hk))
            sk = [rng.pick(keys) for _ in range(rng.pick([1, 2, 4, 9]))]
            if rng.chance(1, 3) and hk:
                sk = [k for k in sk if k > hk[-1]] or [keys[-1] + b"\x01"]      # everything sorts after the header: accepted
                stats.bump("usedw_all_after_header")
            else:
                stats.bump("usedw_some_not_after_header" if hk else "usedw_fresh_writer")
            lines = ["reset", "@i sys.info", "w.new 1 comp=0 bs=%d ri=2 minbs=16 pre=-" % rng.pick([16, 64, 300])]
            for k in hk:
                lines.append("w.add 1 %s %s" % (hx(k), hx(b"H")))
            lines.append("s.new 2 mem=%d minmem=0 merge=%s eo=$i.eo pid=$i.pid tdir=plain%s" % (rng.pick([1, 64, 100000]), rng.pick(["union", "none"]) if len(set(sk)) == len(sk) else "union", ""))
            for j, k in enumerate(sk):
                lines.append("s.add 2 %s %s" % (hx(k), hx(bytes([0x30 + j]))))
            lines.append("s.write 2 1")
            lines.append("w.add 1 %s %s" % (hx(keys[-1] + b"\xff\xff"), hx(b"Z")))
            lines += ["@f w.fin 1", "r.openw 3 1", "r.it 3 10 iter"] + ["r.next 10"] * (len(hk) + len(set(sk)) + 3)
            yield ("usedw:%d:%d" % (seed, i), lines)
    def oracle(self, res):
        fails = []
        last = None; acc = []; sadds = []; reading = None
        for i, r in enumerate(res):
            t = r["req"].split(" "); op = t[0][1:].split(" ")[-1] if t[0].startswith("@") else t[0]
            if t[0].startswith("@"):
                t = t[1:]; op = t[0]
            real = r["real"]
            if op == "reset":
                last = None; acc = []; sadds = []; reading = None
            elif op == "w.add":
                k = unhx(t[2])
                want = "ok" if (last is None or k > last) else "fail"
                if real != want:
                    fails.append(("C08", "mtbl_writer_add of %s after %s returned %s" % (t[2][:40], "-" if last is None else hx(last)[:40], real), i))
                if real == "ok":
                    acc.append(k); last = k
            elif op == "s.add":
                sadds.append(unhx(t[2]))
            elif op == "s.write":
                want = "ok"
                for k in sorted(set(sadds)):
                    if last is None or k > last:
                        acc.append(k); last = k
                    else:
                        want = "fail"; break
                if real != want:
                    fails.append(("C08", "mtbl_sorter_write into a writer whose last key is %s, sorter keys %s: returned %s, expected %s (every add goes through the ordering gate)" % ("-" if not acc else "...", ",".join(hx(k)[:12] for k in sorted(set(sadds)))[:80], real, want), i))
            elif op == "r.it":
                reading = list(acc); prev = None
            elif op == "r.next" and reading is not None:
                if real.startswith("ent "):
                    k = unhx(real.split(" ")[1])
                    if prev is not None and not (k > prev):
                        fails.append(("C08", "the finished file holds key %s after key %s: accepted keys must be strictly ascending" % (hx(k)[:40], hx(prev)[:40]), i))
                    prev = k
                    if not reading or reading[0] != k:
                        fails.append(("C08", "the finished file holds key %s, the accepted adds were %s" % (hx(k)[:40], ",".join(hx(x)[:12] for x in acc)[:80]), i)); reading = None; continue
                    reading.pop(0)
                elif reading:
                    fails.append(("C08", "the finished file lacks accepted key %s" % hx(reading[0])[:40], i)); reading = None
        return fails
    def keep_prefix(self, lines):
        return 3
    def tie_props(self, res, idx):
        return {"C08"}
    def nontrivial(self, pid, lines, res):
        return any(r["req"].startswith("s.write") and r["real"] == "fail" for r in res) or any(r["req"].startswith("s.write") and r["real"] == "ok" for r in res)

FAMILIES["usedw"] = UsedWriterFamily
NOT_YET = {}


class MergerFamily(Family):
    name = "merger"
    def cases(self, pid, seed, tier, mult, stats):
        for c in self.corpus(pid):
            yield c
        if pid not in ("C04", "C05"):
            # tables written by mtbl_source_write (a merger's content copied into a fresh writer): bytes, trailer included,
            # compared with the writer model
            for i in range(budget(tier, 60, 700, mult)):
                rng = Rng(seed * 2000003 + i * 13 + 5)
                yield ("merger:w:%d:%d" % (seed, i), F.gen_merger_case(rng, stats, focus="C04", force_write=True))
            return
        for i in range(budget(tier, 300, 5000, mult)):
            rng = Rng(seed * 2000003 + i * 13 + (1 if pid == "C05" else 0))
            yield ("merger:%d:%d" % (seed, i), F.gen_merger_case(rng, stats, focus=pid))
    def oracle(self, res):
        return F.oracle_merger(res)
    def run(self, exe, lines):
        res = vlib.run_script(exe, lines)
        # after a reported merge-callback failure the iterator state is unspecified: stop comparing that iterator
        failmode = any(r["req"].startswith("m.new") and "merge=fail:" in r["req"] for r in res)
        if failmode:
            dead = set()
            for r in res:
                t = r["req"].split(" ")
                if t[0] in ("m.next", "m.seek") :
                    if t[1] in dead:
                        r["model"] = r["real"]
                    elif t[0] == "m.next" and r["real"] == "fail":
                        dead.add(t[1])
        return res
    def keep_prefix(self, lines):
        return 2
    def tie_props(self, res, idx):
        t = res[idx]["req"].split(" ")
        if t[0] in ("m.next", "m.seek", "m.it"):
            iid = t[2] if t[0] == "m.it" else t[1]
            kind, seeked = None, False
            for r in res[:idx + 1]:
                tt = r["req"].split(" ")
                if tt[0] == "m.it" and tt[2] == iid:
                    kind = tt[3]; seeked = False
                if tt[0] == "m.seek" and tt[1] == iid:
                    seeked = True
            if t[0] == "m.next" and not seeked and kind != "iter":
                return {"C05", "C04"}
            return {"C05"} if (seeked or kind != "iter") else {"C04"}
        if t[0] == "m.write":
            a, b = res[idx]["real"], res[idx]["model"]
            if a.startswith("file ") and b.startswith("file ") and len(a) == len(b):
                ha, hb = a[5:], b[5:]
                if len(ha) >= 1024 and ha[:-1024] == hb[:-1024] and ha[-1024 + 144:] == hb[-1024 + 144:]:
                    return {"C10", "C04"}          # bytes differ only inside the nine counter fields of the trailer
            return {"C04", "C10", "C09"}
        return {"C04", "C05"}
    def nontrivial(self, pid, lines, res):
        n = sum(1 for l in lines if l.startswith("m.src") and len(l.split(" ")) > 6)
        return n >= 2

FAMILIES["merger"] = MergerFamily


class SorterFamily(Family):
    name = "sorter"
    def cases(self, pid, seed, tier, mult, stats):
        for c in self.corpus(pid):
            yield c
        for i in range(budget(tier, 200, 3000, mult)):
            rng = Rng(seed * 3000017 + i * 11)
            yield ("sorter:%d:%d" % (seed, i), F.gen_sorter_case(rng, stats))
    def oracle(self, res):
        return F.oracle_sorter(res)
    def keep_prefix(self, lines):
        return 3
    def tie_props(self, res, idx):
        return {"C06"}
    def nontrivial(self, pid, lines, res):
        return any(r["req"].startswith("s.spills") and int(r["real"].split(" ")[1]) >= 2 for r in res if r["real"].startswith("spills"))

FAMILIES["sorter"] = SorterFamily


class FilesetFamily(Family):
    name = "fileset"
    def cases(self, pid, seed, tier, mult, stats):
        for c in self.corpus(pid):
            yield c
        for i in range(budget(tier, 250, 4000, mult)):
            rng = Rng(seed * 4000037 + i * 17)
            yield ("fileset:%d:%d" % (seed, i), F.gen_fileset_case(rng, stats))
    def oracle(self, res):
        fails = F.oracle_fileset(res)
        # the reload rules themselves: the Lean machine is their executable statement; a disagreement on what an
        # iterator returns, on a NULL/ok result or a model-side `uaf` is a property failure, not merely a broken tie
        for i, r in enumerate(res):
            if r["model"] == "uaf" and r["real"] != "asan":
                fails.append(("C07", "the model predicts a use-after-free here (reader or merger released while referenced); the run did not trap but the history is unsafe", i)); break
        return fails
    def keep_prefix(self, lines):
        return 2
    def tie_props(self, res, idx):
        return {"C07"}
    def nontrivial(self, pid, lines, res):
        return sum(1 for l in lines if l.startswith("fs.set")) >= 2 and sum(1 for l in lines if l.startswith(("fs.now", "fs.reload"))) >= 1 and any(l.startswith("fs.dup") for l in lines)

FAMILIES["fileset"] = FilesetFamily


class EncFamily(Family):
    name = "enc"
    def cases(self, pid, seed, tier, mult, stats):
        for c in self.corpus(pid):
            yield c
        self.stats = stats
        # a well-formed table whose first data block really exceeds 4 GiB (sparse file, independent C encoder in
        # harness/ops_big.c): restart offsets above 2^32 in a 64-bit restart array; thorough: also with checksum verification
        yield ("enc:big4g", ["rv.big4g 0"] + (["rv.big4g 1"] if tier == "thorough" else []))
        stats.bump("enc_real_4GiB_block")
        for i in range(budget(tier, 200, 3000, mult)):
            yield ("enc:%d:%d" % (seed, i), ["#gen-enc %d %d" % (seed, i)])
    def run(self, exe, lines):
        if not lines or not lines[0].startswith("#gen-enc"):
            res = vlib.run_script(exe, lines)
            self.last_ents = self._ents_from(res)
            return res
        _, seed, i = lines[0].split(" ")
        rng = Rng(int(seed) * 5000011 + int(i) * 23)
        st = getattr(self, "stats", F.Stats())
        spec, ents, comp, thr = F.gen_efile_spec(rng, st)
        ctab = []
        if comp != 0:
            r1 = vlib.run_script(exe, ["@r enc.raw " + spec])
            raws = r1[0]["model"].split(" ")[1:] if r1 and r1[0]["model"].startswith("raws") else []
            level = rng.pick(F.LEVELS[comp])
            r2 = vlib.run_script(exe, ["cz.raw %d %s %s" % (comp, level, raw) for raw in raws]) if raws else []
            for raw, rr in zip(raws, r2):
                if rr["real"].startswith("stored "):
                    ctab.append("ctab %d %s %s" % (comp, raw, rr["real"].split(" ")[1]))
        script = F.gen_enc_script(rng, st, spec, ents, comp, thr, ctab)
        self.last_script = script
        self.last_ents = ents
        return vlib.run_script(exe, script)
    def _ents_from(self, res):
        # replay: recover the encoded entries from the spec in the script
        for r in res:
            if r["req"].startswith("enc.file"):
                kv = dict(a.split("=", 1) for a in r["req"].split(" ")[2:] if "=" in a)
                ents = []
                for b in (kv.get("blocks", "") or "").split(";"):
                    for it in b.split("|")[1:]:
                        sh, k, v = it.split(",")
                        ents.append((unhx(k), unhx(v)))
                return ents
        return []
    def oracle(self, res):
        big = [("C11", "well-formed table with a data block above 4 GiB (64-bit restart offsets >= 2^32): " + r["real"][:160], i)
               for i, r in enumerate(res) if r["req"].startswith("rv.big4g") and not r["real"].startswith(("big ok", "big skipped"))]
        return big + [f for f in F.oracle_enc(res, getattr(self, "last_ents", [])) if f[0] != "gen"]
    def tie_props(self, res, idx):
        return {"C11"}
    def nontrivial(self, pid, lines, res):
        return any(r["req"].startswith("r.openb") and r["real"].startswith("ok ") and int(r["real"].split(" ")[6]) >= 2 for r in res)

FAMILIES["enc"] = EncFamily


def file_verifies(fb):
    """every frame up to the trailer: walkable, and the stored CRC-32C is the CRC of the block's bytes (what mtbl_verify checks)"""
    if len(fb) < 512:
        return False
    end = len(fb) - 512; off = 0
    while off < end:
        ln, n = F.varint(fb, off)
        if ln is None or off + n + 4 + ln > end:
            return False
        if int.from_bytes(fb[off + n:off + n + 4], "little") != crc32c_ref(fb[off + n + 4:off + n + 4 + ln]):
            return False
        off += n + 4 + ln
    return off == end


class WaFamily(Family):
    """C20: the writer under scripted write(2) outcomes (short writes, EINTR, zero, hard errors)"""
    name = "wa"
    def cases(self, pid, seed, tier, mult, stats):
        for c in self.corpus(pid):
            yield c
        rng = Rng(seed * 6000011 + 1)
        for i in range(budget(tier, 40, 600, mult) if pid == "C20" else budget(tier, 12, 150, mult)):
            st = F.Stats()
            keys = F.gen_keys(rng, rng.pick([0, 1, 2, 4, 7]), st, long_ok=False)
            ents = " ".join("%s %s" % (hx(k), hx(F.gen_val(rng, st, 40)[:60])) for k in keys)
            cfgs = "bs=%d ri=%d minbs=16" % (rng.pick([16, 32, 64, 200]), rng.pick([1, 2, 3]))
            if rng.chance(1, 3):
                # the same writer with a thread pool: blocks reach write(2) from the result-handler thread (same call sequence)
                cfgs += " pool=%d" % rng.pick([0, 1, 2, 4]); stats.bump("wa_pooled_writer")
            if rng.chance(1, 3):
                # the writer is handed a descriptor that already stands some bytes into the file (reserved leading bytes)
                cfgs += " off=%d" % rng.pick([1, 13, 64, 700]); stats.bump("wa_descriptor_at_offset")
            lines = ["wa.file %s script=- %s" % (cfgs, ents)]
            # number of _write_all calls of the fault-free run: 3 per block + 3 (index) + 1 (trailer) — unknown here, so
            # enumerate single faults at the first 3*len+8 call positions (later positions are simply never reached)
            ncalls = 3 * len(keys) + 8
            if i % 3 == 0:
                for pos in range(ncalls):          # exhaustive single faults at every call
                    for o in ("e", "p1", "p3", "z", "x"):
                        lines.append("wa.file %s script=%s %s" % (cfgs, ",".join(["f"] * pos + [o]), ents))
                        stats.bump("wa_single_" + o[0])
            if i % 4 == 1:
                # an unbounded number of interruptions in a row at one call (a signal storm): the write is retried until it
                # goes through, however long that takes — runs of 63..1000 EINTRs, also right after a short write
                for _ in range(4):
                    pos = rng.below(ncalls); k = rng.pick([63, 64, 65, 130, 257, 1000])
                    sc = ["f"] * pos + (["p%d" % rng.pick([1, 3])] if rng.chance(1, 2) else []) + ["e"] * k
                    lines.append("wa.file %s script=%s %s" % (cfgs, ",".join(sc), ents)); stats.bump("wa_long_eintr_run")
            for _ in range(12):                    # random multi-fault scripts
                sc = [rng.pick(["f", "f", "e", "e", "p1", "p2", "p5", "p500", "e", "f", "z" if rng.chance(1, 8) else "f", "x" if rng.chance(1, 8) else "e"]) for _ in range(rng.pick([3, 8, 20, 60]))]
                lines.append("wa.file %s script=%s %s" % (cfgs, ",".join(sc), ents)); stats.bump("wa_random")
            yield ("wa:%d:%d" % (seed, i), lines)
        if pid == "C20":
            # more than a megabyte of output (beyond any user-space buffer a writer might keep), short writes and EINTR at
            # many positions, also tiny ones (a few bytes accepted out of a large request)
            for j in range(budget(tier, 2, 20, mult)):
                gen = rng.pick(["300x5000", "150x9000", "40x40000"]); cfgs = "bs=%d ri=16 minbs=1024 gen=%s%s" % (rng.pick([1024, 8192, 8192]), gen, rng.pick(["", "", " pool=2"]))
                lines = ["wa.gen %s script=-" % cfgs]
                for _ in range(3):
                    sc = [rng.pick(["f", "f", "f", "e", "p1", "p100", "p3000", "p70000"]) for _ in range(rng.pick([50, 400, 1500]))]
                    lines.append("wa.gen %s script=%s" % (cfgs, ",".join(sc)))
                stats.bump("wa_large_generated_table")
                yield ("wa:gen:%d:%d" % (seed, j), lines)
    def oracle(self, res):
        fails = []
        base = None
        for i, r in enumerate(res):
            t = r["req"].split(" ")
            kvs = dict(a.split("=", 1) for a in t[1:] if "=" in a)
            key = " ".join(a for a in t[1:] if not a.startswith("script="))
            if t[0] == "wa.gen":
                # megabytes of output (generated in the harness): only benign scripts; the file is reported by its hash
                if kvs.get("script", "-") == "-":
                    base = (key, r["real"])
                    if not r["real"].startswith("ok "):
                        fails.append(("C20", "fault-free write of a large table did not succeed: " + r["real"][:60], i))
                elif base and base[0] == key and r["real"].split(" ")[:3] != base[1].split(" ")[:3]:
                    fails.append(("C20", "large table (%s entries x value bytes) under short writes / EINTR (script %s...): %s, all-full-writes run: %s" % (kvs.get("gen"), kvs["script"][:40], r["real"][:70], base[1][:70]), i))
                continue
            real = r["real"]
            if real.startswith(("asan", "died")):
                fails.append(("C20", "writer under a write(2) script died: " + real[:80], i)); continue
            sc = [] if kvs.get("script", "-") == "-" else kvs["script"].split(",")
            if not sc:
                base = (key, real)
                if not real.startswith("ok "):
                    fails.append(("C20", "fault-free write did not succeed: " + real[:60], i))
                continue
            if base is None or base[0] != key:
                continue
            want_file = base[1].split(" ")[1]
            calls = real.split("calls=")[1].split(",") if "calls=" in real and real.split("calls=")[1] else []
            consumed = sc[:len(calls)]
            hard = any(o in ("z", "x") or o == "p0" for o in consumed)
            if real.startswith("ok "):
                if hard:
                    fails.append(("C20", "a hard write error (script %s) was reported as success" % kvs["script"][:60], i))
                if real.split(" ")[1] != want_file:
                    fails.append(("C20", "file differs from the all-full-writes file under script %s" % kvs["script"][:60], i))
                    if not hard:
                        # the same bytes judged as a file: frames walkable up to the index, trailer as the fault-free one
                        try:
                            fb = bytes.fromhex(real.split(" ")[1][5:]) if real.split(" ")[1][5:] != "-" else b""
                            wb = bytes.fromhex(want_file[5:]) if want_file[5:] != "-" else b""
                        except ValueError:
                            fb = wb = b""
                        fails.append(("C01", "table written under benign write(2) fragmentation (script %s) is not the table written when every write completes: what was added cannot be read back from it" % kvs["script"][:60], i))
                        if not file_verifies(fb):
                            fails.append(("C12", "file written under benign write(2) fragmentation (script %s) does not verify: a frame's stored CRC-32C is not the CRC of its bytes or the frames cannot be walked — mtbl_verify and a verify_checksums reader stop on a file the writer reported as written" % kvs["script"][:60], i))
                        if F.walk_layout(fb, 0) is None:
                            fails.append(("C09", "file written under benign write(2) fragmentation (script %s) is not well-formed: frames do not tile the file up to the index / trailer" % kvs["script"][:60], i))
                        if fb[-512:] != wb[-512:] or F.walk_layout(fb, 0) != F.walk_layout(wb, 0):
                            fails.append(("C10", "trailer statistics written under benign write(2) fragmentation (script %s) differ from the truth (the all-full-writes trailer / actual layout)" % kvs["script"][:60], i))
            elif real.startswith("abort "):
                if not hard:
                    fails.append(("C20", "the process stopped although every outcome in the script was benign (%s)" % kvs["script"][:60], i))
                got = real.split(" ")[1][5:]
                if not want_file[5:].startswith(got if got != "-" else ""):
                    fails.append(("C20", "bytes that reached the descriptor before the stop are not a prefix of the fault-free file", i))
        return fails
    def tie_props(self, res, idx):
        return {"C20"}
    def nontrivial(self, pid, lines, res):
        return any(r["real"].startswith("abort") for r in res) and sum(1 for r in res if r["real"].startswith("ok ")) >= 3

FAMILIES["wa"] = WaFamily

# ---------------------------------------------------------------------------------------------
REG = json.load(open(os.path.join(vlib.LEAN, "registry.json")))

def reg(pid, families, rule, assumptions=(), generated=(), trusted=(), **kw):
    d = {"module": REG[pid]["module"], "theorems": REG[pid]["theorems"], "families": families, "rule": rule,
         "assumptions": list(assumptions), "generated": list(generated), "trusted": list(trusted)}
    d.update(kw)
    PROPS[pid] = d

TABLE_RULE = ("tables from prefix-tree key generators over the alphabet {00,01,7f,80,fe,ff,'a','b'} + random bytes (empty key with probability 1/2, "
              "keys/values straddling 127/128 and 16383/16384, values larger than a block), 6 compression types x default/clamped/in-range levels, "
              "block sizes 16..5000 through the run-time minimum (every tenth case at the real minimum), restart intervals 1..20, foreign prefixes 0..700 bytes, "
              "verify_checksums and madvise on/off; full iteration, get/prefix/range lookups on structured queries, seek/next histories on all four iterator kinds; "
              "file bytes compared exactly with the model (compressed payloads through the library's own output as oracle table); non-trivial = >= 2 data blocks and >= 3 accepted entries")
LEN32 = "entries shorter than 4 GiB (finding F11: longer ones are silently truncated by the 32-bit entry header)"
CODEC = "compression libraries: decompress(compress(x)) = x and compress does not fail (contract; the part of C15 consumed here)"

reg("C01", ["table", "wa"], TABLE_RULE + "; plus the write-fault family (short writes / EINTR must not change the file)", [LEN32, CODEC, "restart interval >= 1", "pooled writer = sequential writer (C13)"], generated=["Constants"])
reg("C02", ["table"], TABLE_RULE, [LEN32, CODEC])
reg("C03", ["table"], TABLE_RULE, [LEN32, CODEC, "buffer lifetime (returned key/value stay intact until the next call on that iterator) is a run-time check under ASan, not a theorem"])
reg("C09", ["table", "wa"], TABLE_RULE + "; every emitted file is byte-identical to the independent encoder's output on the canonical choices (W_refines_format) and re-validated structurally by python (frames contiguous to the index offset, prefix untouched); the same for files written under scripted short writes / EINTR (family wa)", [LEN32, CODEC], generated=["Constants"])
reg("C10", ["table", "wa", "merger"], TABLE_RULE + "; tables written by mtbl_source_write (a merger's content copied into a fresh writer, family merger) compared byte for byte, trailer included, with the writer model; index block contents swept across the 127/128 and 16383/16384 length-prefix boundaries; the nine trailer fields from mtbl_metadata_* accessors recounted from the accepted entries and from the frame layout; the trailer and layout of files written under scripted short writes / EINTR (family wa)", [LEN32, "counters below 2^64"], generated=["Constants"])
reg("C11", ["enc"], "files produced by the Lean independent encoder from random LEGAL choices (v1 and v2, restart at every entry / one per block / random / writer-like, sharing anywhere in 0..lcp, separators anywhere in the legal interval, random block splits, foreign prefixes, all six codecs with payloads compressed by the real library, 32- and 64-bit restart arrays via a lowered threshold compiled into block.c/block_builder.c at run time) read by the real reader: iteration, lookups, seek histories; non-trivial = >= 2 data blocks",
    [LEN32, CODEC, "non-canonical varints are excluded (as in the property)", "the >4 GiB restart-array branch is exercised at a lowered threshold; the theorems are parametric in the threshold"])
reg("C04", ["merger"], "0..6 sources (real tables with tiny blocks, empty tables, a user-defined source that poisons its previous buffers on every call), overlapping/disjoint/identical key sets incl. the empty key, merge = multiset union of unique 2-byte tokens (so 'each value exactly once' is checkable and fold order cannot differ), no merge function, dupsort, a merge callback failing on a chosen key; non-trivial = >= 2 non-empty sources",
    ["sources sorted; dupsort a total preorder", "after a reported callback failure the iterator state is unspecified and no longer compared"])
reg("C06", ["sorter"], "input sequences (random, sorted, reversed, all-equal, distinct; empty key; empty input) x memory limits from one entry per chunk to everything in memory (run-time minimum lowered) x pool none/0/1/2/4/8; iterator output, mtbl_sorter_write output, refusals after iteration began, spill count against the byte rule, mkstemp templates and leftover files; non-trivial = >= 2 spills",
    ["qsort returns a key-sorted permutation", "the chunk round trip through a temporary snappy table is the identity (C01)", "mkstemp/unlink/mmap-after-unlink semantics (OS contract)", "pooled chunk writers deliver the same chunks in some order (C13)"])
reg("C20", ["wa"], "a writer (compression none, 0..7 entries, tiny blocks) under scripted write(2) outcomes: exhaustive single faults (EINTR, short 1, short 3, zero, EIO) at every call position, random multi-fault scripts up to 60 outcomes; child process per run; final bytes, per-call sizes and termination compared with the model; non-trivial = the case contains both completed and stopped runs",
    ["asserts are enabled (the repository's flags never define NDEBUG)", "write(2) returns at most the requested size"])


def count_block_entries(raw):
    """number of entries in a raw (uncompressed) block with a 32-bit restart array"""
    if len(raw) < 8:
        return 0
    nr = int.from_bytes(raw[-4:], "little")
    end = len(raw) - 4 - 4 * nr
    off = 0; n = 0
    while off < end:
        vals = []
        for _ in range(3):
            v, k = F.varint(raw, off)
            if v is None:
                return n
            vals.append(v); off += k
        off += vals[1] + vals[2]; n += 1
    return n


def flip_bits(b, positions):
    b = bytearray(b)
    for p in positions:
        b[p // 8] ^= 1 << (p % 8)
    return bytes(b)


class CorruptFamily(Family):
    """C12: every block of a written file is covered by a checksum that is actually compared"""
    name = "corrupt"
    def cases(self, pid, seed, tier, mult, stats):
        for c in self.corpus(pid):
            yield c
        self.stats = stats
        for i in range(budget(tier, 25, 400, mult)):
            yield ("corrupt:%d:%d" % (seed, i), ["#gen-corrupt %d %d %s" % (seed, i, tier)])
    def run(self, exe, lines):
        if not lines or not lines[0].startswith("#gen-corrupt"):
            res = vlib.run_script(exe, lines)
            return self.canon(res)
        _, seed, i, tier = lines[0].split(" ")
        rng = Rng(int(seed) * 7000003 + int(i) * 29)
        st = getattr(self, "stats", F.Stats())
        tl = F.gen_table_case(rng, st, mode="sorted", small=True, nkeys=rng.pick([1, 3, 6, 12, 20]))
        tl = [l.split(" ", 1)[1] if l.startswith("@") else l for l in tl]
        tl = [l for l in tl if l.startswith(("reset", "w."))]
        # half of the tables are written behind foreign leading bytes (mtbl_writer_init_fd on a positioned descriptor): block
        # offsets in the index and in the trailer are then absolute, the data-block byte count is not
        plen = rng.pick([0, 0, 0, 13, 100, 700, 4096])
        prefix = bytes(rng.below(256) for _ in range(plen))
        if plen:
            st.bump("corrupt_table_behind_prefix")
        tl[1] = " ".join(a for a in tl[1].split(" ") if not a.startswith(("pre=", "thr=", "pos="))) + " pre=" + (hx(prefix) if plen else "-")
        res1 = vlib.run_script(exe, tl)
        fin = [r for r in res1 if r["req"].startswith("w.fin") and r["real"].startswith("file ")]
        if not fin and any(r["req"].startswith("w.fin") for r in res1):
            res1.append({"req": "#corrupt-setup", "real": "w.fin gave no file", "model": "file", "side": []})
        if not fin:
            return res1
        good = prefix + unhx(fin[0]["real"].split(" ")[1])
        ctab = [s[1:] for r in res1 for s in r.get("side", []) if s.startswith("#ctab ")]
        comp = int(dict(a.split("=", 1) for a in tl[1].split(" ")[2:])["comp"])
        keys = [unhx(r["req"].split(" ")[2]) for r in res1 if r["req"].startswith("w.add") and r["real"] == "ok"]
        # layout
        L = len(good); io = int.from_bytes(good[L - 512:L - 504], "little")
        frames = []; off = plen
        while off < io:
            ln, n = F.varint(good, off); frames.append((off, n, ln)); off += n + 4 + ln
        iln, inn = F.varint(good, io)
        raws = [unhx(c.split(" ")[2]) for c in ctab] if comp != 0 else [good[o + n + 4:o + n + 4 + ln] for o, n, ln in frames]
        counts = [count_block_entries(r) for r in raws]
        self.meta = {"total": len(keys), "counts": counts, "muts": []}
        script = ["reset"] + ctab + ["blob 1 " + hx(good), "tool.verify 1", "rv.read 1 verify=1"]
        bid = 2
        nmut = 14 if tier == "quick" else 60
        for _ in range(nmut):
            tgt = rng.below(len(frames) + 1)
            o, n, ln = frames[tgt] if tgt < len(frames) else (io, inn, iln)
            nbits = 8 * (ln + 4)               # checksum field (4 bytes) then stored bytes, in file order
            kind = rng.pick(["1bit", "2bit", "3bit", "burst", "field", "tail", "head", "zerofield", "onesfield"])
            if kind == "burst":
                start = rng.below(max(1, nbits - 32)); pat = rng.below((1 << 32) - 1) + 1
                pos = [start + b for b in range(32) if (pat >> b) & 1 and start + b < nbits]
                # keep the burst inside the stored bytes or inside the field (a CRC burst in the codeword's own bit order)
                if pos and not (all(p < 32 for p in pos) or all(p >= 32 for p in pos)):
                    pos = [p for p in pos if p >= 32] or pos
            elif kind in ("tail", "head"):
                # 1..3 flipped bits inside the last (first) 8 stored bytes: the bytes an implementation's tail (prologue)
                # handling is responsible for
                w = min(64, 8 * ln)
                base = 32 + (8 * ln - w if kind == "tail" else 0)
                pos = sorted(set(base + rng.below(max(1, w)) for _ in range(rng.pick([1, 1, 2, 3])))) if ln else [rng.below(32)]
            elif kind in ("zerofield", "onesfield"):
                # the burst inside the checksum field that turns it into 00000000 (ff ff ff ff): a "no checksum stored" look
                fld = int.from_bytes(good[o + n:o + n + 4], "little")
                pos = [b for b in range(32) if ((fld >> (b % 8 + 8 * (b // 8))) & 1) == (1 if kind == "zerofield" else 0)]
                if not pos:
                    pos = [rng.below(32)]
            elif kind == "field":
                pos = sorted(set(rng.below(32) for _ in range(rng.pick([1, 2, 5]))))
            else:
                pos = sorted(set(rng.below(nbits) for _ in range(int(kind[0]))))
            st.bump("corrupt_" + kind); st.bump("corrupt_target_" + ("index" if tgt == len(frames) else "data"))
            bad = bytearray(good)
            seg = flip_bits(bytes(bad[o + n:o + n + 4 + ln]), pos)
            bad[o + n:o + n + 4 + ln] = seg
            script.append("blob %d %s" % (bid, hx(bytes(bad))))
            script.append("tool.verify %d" % bid)
            script.append("rv.read %d verify=1%s" % (bid, rng.pick(["", "", " madv=0", " madv=1"])))
            before = sum(counts[:tgt]) if tgt < len(frames) else 0
            if tgt < len(frames) and counts[tgt] > 0 and before < len(keys):
                script.append("rv.read %d verify=1 get=%s" % (bid, hx(keys[before])))
                if tgt + 1 < len(frames):
                    # the same lookup after the reader has already served a key from a LATER block
                    script.append("rv.read %d verify=1 first=%s get=%s" % (bid, hx(keys[-1]), hx(keys[before])))
                if len(frames) >= 2:
                    # a live iterator standing in ANOTHER (intact) block is moved into the damaged block by seek()
                    other = rng.pick([t for t in range(len(frames)) if t != tgt])
                    wkey = keys[min(sum(counts[:other]), len(keys) - 1)]
                    skey = keys[min(before + rng.below(max(1, counts[tgt])), len(keys) - 1)]
                    script.append("rv.read %d verify=1 warm=%s seek=%s" % (bid, hx(wkey), hx(skey))); st.bump("corrupt_seek_into_damaged")
            self.meta["muts"].append({"bid": str(bid), "target": "index" if tgt == len(frames) else tgt, "before": before, "kind": kind})
            bid += 1
        return self.canon(vlib.run_script(exe, script))
    def canon(self, res):
        for r in res:
            for side in ("real", "model"):
                if r[side] == "verify none exit=1":
                    r[side] = "verify FAILED exit=1"
        return res
    def oracle(self, res):
        fails = []
        meta = getattr(self, "meta", None)
        if not meta:
            return fails
        muts = {m["bid"]: m for m in meta["muts"]}
        for i, r in enumerate(res):
            t = r["req"].split(" "); real = r["real"]
            if "asan" in real or "crash" in real:
                fails.append(("C12", "sanitizer report / crash on a damaged file: " + real, i)); continue
            if t[0] == "tool.verify":
                if t[1] == "1":
                    if real != "verify OK exit=0":
                        fails.append(("C12", "mtbl_verify on an intact written file: " + real, i))
                elif t[1] in muts and real.startswith("verify OK"):
                    fails.append(("C12", "mtbl_verify reported OK on a file with a %s error in %s block" % (muts[t[1]]["kind"], muts[t[1]]["target"]), i))
            elif t[0] == "rv.read":
                f = real.split(" ")
                if t[1] == "1":
                    if not (f[3] == "eof" and int(f[1]) == meta["total"]):
                        fails.append(("C12", "verifying reader on an intact file: " + real, i))
                elif t[1] in muts:
                    m = muts[t[1]]
                    if any(a.startswith("seek=") for a in t):
                        if int(f[1]) != 0 or f[3] != "abort":
                            fails.append(("C12", "seek() of a live iterator into the damaged block: %s (an entry decoded from that block was returned, or the reader did not stop)" % real, i))
                    elif any(a.startswith("get=") for a in t):
                        if int(f[1]) != 0 or f[3] != "abort":
                            fails.append(("C12", "get() on a key of the damaged block: %s (an entry decoded from that block was returned, or the reader did not stop)" % real, i))
                    elif m["target"] == "index":
                        if f[3] != "abort" or int(f[1]) != 0:
                            fails.append(("C12", "verifying reader opened a file with a damaged index block: " + real, i))
                    else:
                        if f[3] != "abort" or int(f[1]) != m["before"]:
                            fails.append(("C12", "verifying reader on a file with damaged data block %s returned %s entries and ended with %s (expected %d then a stop)" % (m["target"], f[1], f[3], m["before"]), i))
        return fails
    def tie_props(self, res, idx):
        return {"C12"}
    def nontrivial(self, pid, lines, res):
        return any(r["real"].endswith("abort") for r in res) and any(r["real"] == "verify FAILED exit=1" for r in res)

FAMILIES["corrupt"] = CorruptFamily

reg("C05", ["merger"], PROPS["C04"]["rule"] + "; get/prefix/range lookups on merger sources and next/seek histories on all four iterator kinds incl. seek to the key just returned, backward seeks after exhaustion, seeks onto keys that need merging",
    ["sources sorted; dupsort a total preorder", "seek targets at or after the start of the iterator's range (as the property requires; the hypothesis is necessary: seek_below_start_witness)", "the assembled history theorem is for unbounded iterators; bounded kinds are covered per operation (C05_seek, C05_inv_next) and by C05_lookup"])
reg("C07", ["fileset"], "fileset histories: setfile rewrites (add/remove/reorder names, relative and absolute paths, a missing file, a file that is not a table) with strictly increasing mtimes via utimensat, create/delete table files, harness-owned CLOCK_MONOTONIC (clock_gettime shim) advanced in whole seconds, reload / reload_now on up to three handles (dup with other filename/reader filters and intervals 0,3,10,never), up to six open iterators of all kinds, seeks, closes, destroys in legal orders; under ASan; three-way agreement: real code, Lean machine, independent python machine; non-trivial = >= 2 setfile versions, a reload/reload_now and a dup",
    ["setfile edits change (ino, mtime); clock readings are positive and distinct; a setfile never lists a name twice; a name denotes the same table while it stays listed; handles outlive their iterators", "stat/mtime granularity, mmap-after-delete and real time are OS contracts (partial)"])
reg("C12", ["corrupt", "wa"], "tables from the real writer (all six codecs, tiny blocks), then 14 (quick) / 60 (thorough) damaged copies each: 1, 2, 3 flipped bits and bursts <= 32 bits (LSB-first bit order) inside one block's stored bytes or checksum field, data blocks and the index block alike; mtbl_verify built from the tree run on every copy, a verifying reader drained in a child process (entries returned before it stops), get() on a key of the damaged block; non-trivial = the batch contains both aborting readers and FAILED verify runs",
    ["asserts are enabled", "the two-/three-bit guarantee needs blocks shorter than 256 MiB (period of the CRC-32C generator)", "file-order bursts straddling the checksum field and the stored bytes are covered only when they are bursts in codeword order"])


# ------------------------------------------------------------------ compression wrappers (C15)
CZ_LEVELS = ["d", "-1000", "-7", "-1", "0", "1", "3", "6", "9", "10", "12", "16", "19", "22", "23", "1000"]
CZ_KINDS = ["zero", "random", "text", "period7", "ff", "ramp", "mixed"]

class CzFamily(Family):
    """C15: mtbl_compress / mtbl_compress_level / mtbl_decompress in a child process, every library call the wrappers make
    reported by interposers ("#lib" facts); the Lean wrapper model is run over exactly those facts."""
    name = "cz"
    def run(self, exe, lines):
        res = vlib.run_script(exe, lines)
        # damaged streams (not the output of the compress call just before): the bytes of the output buffer that the library did
        # not write are whatever malloc returned (the lz4 wrappers report the length of the size prefix): C15 says nothing about
        # them, so only the verdict and the length are compared.  Round trips are compared exactly.
        last = None
        for r in res:
            t = r["req"].split(" ")
            if t[0] == "cz.c":
                last = r["real"].split(" ")[1] if r["real"].startswith("ok ") else None
            elif t[0] == "cz.d":
                if last is not None and len(t) > 2 and t[2] == last:
                    last = None
                    continue
                a, b = r["real"], r.get("model")
                if b and a.startswith("ok ") and b.startswith("ok ") and len(a.strip()) == len(b.strip()):
                    r["model"] = a
        return res
    def cases(self, pid, seed, tier, mult, stats):
        for c in self.corpus(pid):
            yield c
        rng = Rng(seed * 104729 + 5)
        # names
        lines = ["reset"] + ["cz.tostr %d" % t for t in range(0, 9)]
        names = ["none", "snappy", "zlib", "lz4", "lz4hc", "zstd"]
        for n in names:
            for v in (n, n.upper(), n.capitalize(), n + "x", n[:-1], "x" + n, n[0].upper() + n[1:-1] + n[-1].upper()):
                lines.append("cz.name %s" % v)
        for v in ("gzip", "lz", "zstd1", "LZ4HCX", "0", "snappy-", "ZLIB", "zLiB", "lz4h", "deflate", "brotli"):
            lines.append("cz.name %s" % v)
        yield ("cz:names", lines)
        # every length 0..64 x algorithms x contents x levels
        kinds_small = CZ_KINDS[:4] if tier == "thorough" else CZ_KINDS[:2]
        for algo in (1, 2, 3, 4, 5):
            for kind in kinds_small:
                nl = 6 if tier == "thorough" else 2
                levels = ["d"] + [rng.pick(CZ_LEVELS[1:]) for _ in range(max(1, int((nl - 1) * mult)))]
                for lvl in levels:
                    lines = ["reset"]
                    for n in range(0, 65):
                        stats.bump("cz_algo_%d" % algo); stats.bump("cz_level_" + ("default" if lvl == "d" else "below_min" if int(lvl) < -1 else "above_max" if int(lvl) > 22 else "in_range_or_clamped"))
                        stats.bump("cz_len<=64")
                        lines += ["@b cz.gen %s %d %d" % (kind, n, seed + n), "@s cz.c %d %s $b" % (algo, lvl), "?s cz.d %d $s" % algo]
                    yield ("cz:small:%d:%s:%s" % (algo, kind, lvl), lines)
        # every level an algorithm distinguishes (and a band below / above its range), a few sizes and contents each:
        # a level-dependent stream property (header bytes, strategy, window) cannot hide between sampled levels
        ranges = {1: [0], 2: list(range(-3, 12)), 3: [0, 1], 4: list(range(-2, 15)), 5: list(range(-12, 25)) + [-131072, -131073, -100]}
        for algo, lvls in ranges.items():
            lines = ["reset"]
            for lvl in lvls:
                for kind, n in (("text", 300), ("zero", 70), ("random", 33), ("random", 65535)) if tier == "quick" else (("text", 300), ("zero", 70), ("random", 33), ("random", 65535), ("text", 131070), ("period7", 5000), ("mixed", 1500), ("text", 0)):
                    stats.bump("cz_every_level_algo_%d" % algo)
                    lines += ["@b cz.gen %s %d %d" % (kind, n, seed + n), "@s cz.c %d %d $b" % (algo, lvl), "?s cz.d %d $s" % algo]
            yield ("cz:levels:%d" % algo, lines)
        # structured / random contents at larger sizes, through the model (sizes the line protocol carries comfortably)
        sizes = [100, 127, 128, 255, 256, 1000, 1023, 1024, 4096, 16383, 16384, 65535, 65536, 100000, 131070, 262144]
        for i in range(budget(tier, 40, 400, mult)):
            algo = 1 + rng.below(5); kind = rng.pick(CZ_KINDS); lvl = rng.pick(CZ_LEVELS)
            n = rng.pick(sizes) + rng.pick([0, 0, 1, rng.below(100)])
            if tier == "quick" and n > 70000 and not rng.chance(1, 3):
                n = n % 70000
            stats.bump("cz_algo_%d" % algo); stats.bump("cz_kind_" + kind); stats.bump("cz_len_%s" % ("<=1k" if n <= 1024 else "<=64k" if n <= 65536 else ">64k"))
            lines = ["reset", "@b cz.gen %s %d %d" % (kind, n, seed * 1000 + i), "@s cz.c %d %s $b" % (algo, lvl), "?s cz.d %d $s" % algo]
            if algo != 2 and rng.chance(1, 3):
                # a damaged stream: must be refused or decoded, never abort (C15_never_abort (3); zlib is excluded: its wrapper asserts)
                g = bytes(rng.below(256) for _ in range(rng.pick([0, 1, 3, 4, 5, 9, 20, 64])))
                if algo in (3, 4) and len(g) >= 4:
                    # the lz4 wrappers trust the 4-byte size prefix (up to INT_MAX bytes are allocated and reported): keep it small or out of range
                    g = rng.pick([bytes([rng.below(200), rng.below(2), 0, 0]), b"\xff\xff\xff\xff", b"\x00\x00\x00\x80"]) + g[4:]
                lines.append("cz.d %d %s" % (algo, hx(g)))
                stats.bump("cz_garbage_decompress")
            yield ("cz:mid:%d:%d" % (seed, i), lines)
        # megabytes: round trip on the real side only (highly compressible and incompressible; zlib ratios above 500:1)
        big = [(k, n) for k in ("zero", "ff", "period7", "random", "text", "mixed") for n in (1000000, 1048576, 4194317)]
        lines = ["reset"]
        for i in range(budget(tier, 14, 90, mult)):
            kind, n = rng.pick(big); algo = 1 + rng.below(5); lvl = rng.pick(CZ_LEVELS)
            if i < 5:
                algo = 2; kind = ("zero", "ff", "period7", "zero", "text")[i]; n = (1000000, 1048576, 1000000, 4194317, 1048576)[i]; lvl = ("d", "6", "9", "1", "d")[i]
            elif i < 8:
                # tens of megabytes of incompressible data through the codecs with a 32-bit size prefix / 32-bit bound arithmetic
                algo = (3, 4, 3)[i - 5]; kind = "random"; n = (16777216, 16800000, 33555432)[i - 5]; lvl = ("d", "3", "d")[i - 5]
            stats.bump("cz_big_algo_%d" % algo); stats.bump("cz_big_kind_" + kind)
            lines.append("cz.big %d %s %s %d %d" % (algo, lvl, kind, n, seed + i))
        yield ("cz:big:%d" % seed, lines)
        # sizes around the codecs' own input limits: above LZ4_MAX_INPUT_SIZE (0x7E000000) up to INT_MAX the lz4 library refuses
        # the input — the wrapper must report failure (or produce something that decompresses to the input); above INT_MAX the
        # wrapper's own guard applies.  Untouched zero pages: nothing is allocated or scanned when the size is refused.
        lines = ["reset"]
        for algo in (3, 4):
            for n in (0x7E000001, 0x7FFFFFFF, 0x80000000):
                lines.append("cz.huge %d %s %d" % (algo, rng.pick(["d", "1", "9"]), n)); stats.bump("cz_lz4_above_its_input_limit")
        if tier == "thorough" or mult > 1.5:
            # more than INT_MAX bytes of INCOMPRESSIBLE data (the compressed frame itself exceeds INT_MAX bytes, which the
            # decompressors refuse as input): compress must report failure.  Gigabytes of memory and about a minute: thorough
            # tier, and whenever the case budget is enlarged because a proof obligation or the tie broke.
            for algo in (5,):       # (zlib takes such an input and needs many minutes for it under ASan: not probed)
                lines.append("cz.huge %d 1 %d random" % (algo, 0x7FFFFFFF + 4098)); stats.bump("cz_incompressible_above_INT_MAX")
        yield ("cz:huge:%d" % seed, lines)
    def oracle(self, res):
        fails = []
        last_in = None; last_c = None
        names = {}
        for i, r in enumerate(res):
            t = r["req"].split(" "); op = t[0]; real = r["real"]
            if op == "cz.gen":
                last_in = real.split(" ")[1] if real.startswith("buf ") else None
            elif op == "cz.c":
                last_c = None
                if not (real.startswith("ok ") or real == "fail"):
                    fails.append(("C15", "mtbl_compress%s(algo=%s, %d bytes) did not return: %s" % ("" if t[2] == "d" else "_level[%s]" % t[2], t[1], 0 if t[3] == "-" else len(t[3]) // 2, real), i))
                elif real.startswith("ok "):
                    last_c = (t[1], t[3], real.split(" ")[1])
            elif op == "cz.d":
                if last_c and t[1] == last_c[0] and t[2] == last_c[2]:
                    if real != "ok " + last_c[1]:
                        fails.append(("C15", "algo=%s: compress succeeded on %d bytes but decompress of its output gave %s" % (t[1], 0 if last_c[1] == "-" else len(last_c[1]) // 2, real[:60]), i))
                    last_c = None
                elif t[1] != "2" and not (real.startswith("ok ") or real == "fail"):
                    fails.append(("C15", "mtbl_decompress(algo=%s) of damaged input did not return: %s" % (t[1], real[:60]), i))
            elif op == "cz.huge":
                if real not in ("ok", "cfail", "nomem"):
                    fails.append(("C15", "%s " + ("incompressible" if len(t) > 4 else "zero") + " bytes, algo=%s level=%s: %s (compress reported success but its output does not decompress to the input, or the call did not return)" % (t[3], t[1], t[2], real), i))
            elif op == "cz.big":
                if real not in ("ok", "cfail"):
                    fails.append(("C15", "round trip of %s bytes (%s) algo=%s level=%s: %s" % (t[4], t[3], t[1], t[2], real), i))
            elif op == "cz.tostr":
                names[int(t[1])] = real
                if (int(t[1]) < 6) != real.startswith("name "):
                    fails.append(("C15", "type_to_str(%s) = %s" % (t[1], real), i))
            elif op == "cz.name":
                canon = {"none": 0, "snappy": 1, "zlib": 2, "lz4": 3, "lz4hc": 4, "zstd": 5}
                want = canon.get(t[1].lower())
                if (want is None and real != "fail") or (want is not None and real != "type %d" % want):
                    fails.append(("C15", "type_from_str(%r) = %s" % (t[1], real), i))
        return fails
    def tie_props(self, res, idx):
        return {"C15"}
    def nontrivial(self, pid, lines, res):
        return any(r["req"].startswith(("cz.c", "cz.big")) and r["real"].startswith("ok") for r in res) or any(r["req"].startswith("cz.huge") for r in res)
    def keep_prefix(self, lines):
        return 1

FAMILIES["cz"] = CzFamily

reg("C15", ["cz"], "every length 0..64 x 5 algorithms x representative contents (zero, random; thorough: + text, period-7) x default level and levels from -1000 to 1000; "
    "structured/random contents (zero, ff, period-7, text, random, ramp, mixed runs) at sizes 100..262144 straddling 127/128, 1023/1024, 16383/16384; damaged streams into the non-zlib decompressors; "
    "megabyte buffers (1 000 000, 1 048 576, 4 194 317 bytes; constant, periodic, text, random) round-tripped on the real side; each call in a child process so that an abort is a result; "
    "every library call made by the wrappers is reported by interposers compiled into compression.c (harness/tu/tu_compression.c) and the Lean wrapper model is evaluated over exactly those facts "
    "(a call with another level, capacity or size than the model predicts is a miss and surfaces as a disagreement); names: all enum values, case variants, near misses; non-trivial = at least one successful compress",
    ["the four libraries meet the contracts of LibOK (round trip given enough room, deflateBound guarantee, recorded content sizes); what they emit is outside the model (partial)",
     "malloc/realloc succeed; deflateInit/inflateInit succeed for levels in -1..9", "megabyte inputs are exercised on the real code only (oracle, no model run)"])


# ------------------------------------------------------------------ thread pool under the deterministic scheduler (C13)
def parse_tp_state(real):
    """'[pick x ]st k=v ...' -> dict, or None"""
    if " st " not in " " + real:
        return None
    body = real[real.index("st ") + 3:]
    d = {"done": body.startswith("done")}
    for part in body.split(" "):
        if "=" in part:
            k, v = part.split("=", 1)
            d[k] = v
    return d

def tp_list(v):
    v = v.strip("[]")
    return [x for x in v.split(",") if x != ""]


class TpFamily(Family):
    """mtbl/threadpool.c under the deterministic scheduler, in lockstep with the Lean transition system: every turn's visible
    state (count, idle list, result queue, outstanding counter, finished flag, per-thread mailbox, delivered results) and the
    set of enabled / sleeping threads are compared."""
    name = "tp"
    variant = "sched"
    def cases(self, pid, seed, tier, mult, stats):
        for c in self.corpus(pid):
            yield c
        rng = Rng(seed * 15485863 + 77)
        # systematic part 1: delay-bounded enumeration (every schedule of the machine with at most d deviations from a
        # deterministic round-robin scheduler), computed by the model and replayed turn by turn on the real code
        d = 1 if tier == "quick" else 3
        small = [(m, j, o) for m in (1, 2) for j in (0, 1, 2, 3) for o in (0, 1)] + ([(3, 3, 0), (3, 3, 1), (2, 4, 0), (2, 4, 1)] if tier == "thorough" else [])
        mp = vlib.Proc([vlib.MODEL_EXE])
        try:
            for m, j, o in small:
                reply, _ = mp.ask("tp.enum max=%d jobs=%d ord=%d delays=%d limit=%d" % (m, j, o, d, 40 if tier == "quick" else 1500))
                scheds = [x for x in reply[len("scheds "):].split(";") if x] if reply.startswith("scheds ") else []
                stats.bump("tp_delay_bounded_schedules", len(scheds))
                for k, sc in enumerate(scheds):
                    yield ("tp:dfs:%d/%d/%d:d%d:%d" % (m, j, o, d, k), ["tp.new max=%d jobs=%d ord=%d" % (m, j, o)] + ["tp.step " + w for w in sc.split(",")])
        finally:
            mp.close()
        # systematic part 2: every small configuration, a few random schedules each
        cfgs = [(m, j, o) for m in (1, 2, 3) for j in (0, 1, 2, 3, 4) for o in (0, 1)]
        reps = budget(tier, 6, 120, mult)
        for m, j, o in cfgs:
            for k in range(reps):
                yield self.mk(rng, m, j, o, stats, "tp:%d:%d/%d/%d:%d" % (seed, m, j, o, k))
        for i in range(budget(tier, 120, 4000, mult)):
            m = rng.pick([1, 1, 2, 2, 3, 4, 6]); j = rng.pick([0, 1, 2, 3, 5, 8, 12]); o = rng.below(2)
            yield self.mk(rng, m, j, o, stats, "tp:%d:r%d" % (seed, i))
    def mk(self, rng, m, j, o, stats, cid):
        stats.bump("tp_max_%d" % m); stats.bump("tp_jobs_%d" % j); stats.bump("tp_ordered_%d" % o)
        mode = rng.pick(["uniform", "uniform", "starve_handler", "starve_workers", "caller_first"])
        stats.bump("tp_sched_" + mode)
        lines = ["tp.new max=%d jobs=%d ord=%d" % (m, j, o)]
        n = 120 + 70 * j
        for _ in range(n):
            lines.append("tp.auto %d" % rng.below(1 << 30))
        return (cid, lines)
    def oracle(self, res):
        fails = []
        if not res:
            return fails
        t = res[0]["req"].split(" ")
        kvs = dict(a.split("=") for a in t[1:] if "=" in a)
        mx, jobs, ordered = int(kvs.get("max", 1)), int(kvs.get("jobs", 0)), kvs.get("ord", "1") == "1"
        finished = False
        for i, r in enumerate(res):
            real = r["real"]
            if real in ("asan", "abort") or real.startswith("crash") or real.startswith("exit:"):
                fails.append(("C13", "the pool program died (%s) %s" % (real, r.get("stderr", "")[-300:]), i)); break
            st = parse_tp_state(real)
            if st is None:
                continue
            if "PROBLEM" in st:
                fails.append(("C13", "synchronisation misuse: " + real[real.index("PROBLEM="):], i)); break
            dl = tp_list(st.get("del", "[]"))
            if len(set(dl)) != len(dl) or any(int(x) < 0 or int(x) >= jobs for x in dl):
                fails.append(("C13", "a result was delivered twice or is not a submitted job's result: del=%s" % st.get("del"), i)); break
            if ordered and dl != [str(k) for k in range(len(dl))]:
                fails.append(("C13", "ordered delivery out of submission order: del=%s" % st.get("del"), i)); break
            if st["done"]:
                finished = True
                if sorted(int(x) for x in dl) != list(range(jobs)):
                    fails.append(("C13", "the run ended with results missing: del=%s of %d jobs" % (st.get("del"), jobs), i))
                break
            if int(st.get("count", "0")) > mx:
                fails.append(("C13", "pool runs %s worker threads, configured maximum %d" % (st["count"], mx), i)); break
            if real.startswith("pick none"):
                fails.append(("C13", "deadlock: no thread can take a step and the run has not ended (a close/destroy call hangs): " + real[:200], i)); break
            if st.get("en") == "[]" and st.get("sl", "[]") != "[]" and not real.startswith("pick s:"):
                # nobody enabled, only sleepers: only a spurious wake-up could continue
                fails.append(("C13", "deadlock: every live thread sleeps on a condition variable: " + real[:200], i)); break
        self.last_finished = finished
        return fails
    def tie_props(self, res, idx):
        return {"C13", "C14"}
    def nontrivial(self, pid, lines, res):
        st = [parse_tp_state(r["real"]) for r in res]
        return any(s and s["done"] for s in st) and len(res) > 12
    def keep_prefix(self, lines):
        return 1

FAMILIES["tp"] = TpFamily


class PooledFamily(Family):
    """writers and sorters with a real thread pool under the OS scheduler, against the sequential model and the sequential oracle"""
    name = "pooled"
    def cases(self, pid, seed, tier, mult, stats):
        for i in range(budget(tier, 60, 1500, mult)):
            rng = Rng(seed * 2750159 + i * 13 + 5)
            pool = rng.pick([0, 1, 1, 2, 3, 4, 8])
            if i % 2 == 0:
                stats.bump("pooled_writer_pool_%d" % pool)
                lines = F.gen_table_case(rng, stats, mode="sorted", small=True, nkeys=rng.pick([5, 12, 30, 60]), pool=pool)
                # the same table written WITHOUT a pool by the real code: the two files must be byte-identical
                wnew = [l for l in lines if l.startswith("w.new 1 ")][0]
                twin = ["w.new 3 " + " ".join(a for a in wnew.split(" ")[2:] if not a.startswith("pool=")) + " pool=0"]
                twin += ["w.add 3 " + l.split(" ", 2)[2] for l in lines if l.lstrip("&").startswith("w.add 1 ")]
                twin += ["w.fin 3"]
                yield ("pooled:w:%d:%d" % (seed, i), lines + twin)
            else:
                stats.bump("pooled_sorter_pool_%d" % pool)
                yield ("pooled:s:%d:%d" % (seed, i), F.gen_sorter_case(rng, stats, pool=pool))
    def oracle(self, res):
        out = []
        is_sorter = any(r["req"].startswith("s.new") for r in res)
        for f in (F.oracle_sorter(res) if is_sorter else F.oracle_table(res)):
            out.append(("C13", "with a thread pool: " + f[1], f[2]))
        f1 = [r for r in res if r["req"] == "w.fin 1"]
        f3 = [(i, r) for i, r in enumerate(res) if r["req"] == "w.fin 3"]
        if f1 and f3 and f1[0]["real"].startswith("file ") and f3[0][1]["real"] != f1[0]["real"]:
            a, b = f1[0]["real"], f3[0][1]["real"]
            out.append(("C13", "the file written with a thread pool (%d bytes) is not byte-identical to the file the same calls write without a pool (%d bytes)" % ((len(a) - 5) // 2, (len(b) - 5) // 2), f3[0][0]))
        return out
    def tie_props(self, res, idx):
        return {"C13"}
    def nontrivial(self, pid, lines, res):
        for r in res:
            if r["req"].startswith("r.openw") and r["real"].startswith("ok "):
                return int(r["real"].split(" ")[6]) >= 2
            if r["req"].startswith("s.spills"):
                return not r["real"].startswith("spills 0") and not r["real"].startswith("spills 1 ")
        return False
    def keep_prefix(self, lines):
        return 2

FAMILIES["pooled"] = PooledFamily


class TpMultiFamily(Family):
    """SEVERAL clients sharing one pool (each with its own result handler; a pool owner creates the pool, starts the clients,
    joins them and destroys the pool), mtbl/threadpool.c unmodified under the deterministic scheduler of harness/tp_drv.c, in
    lockstep with the k-client machine MtblModel/TpK.lean: after every turn the pool (count, idle list), every worker's
    mailbox, every client's result queue / outstanding counter / finished flag / deliveries and the sets of enabled and
    sleeping threads are compared.  Random schedules with spurious wake-ups."""
    name = "tpmulti"
    variant = "sched"
    def cases(self, pid, seed, tier, mult, stats):
        for c in self.corpus(pid):
            yield c
        rng = Rng(seed * 49979687 + 3)
        k = 0
        for clients in (1, 2, 3):
            for mx in (1, 2, 3):
                for jobs in (0, 1, 2):
                    for o in (0, 1):
                        for rep in range(budget(tier, 1, 12, mult)):
                            k += 1
                            yield self.mk(rng, clients, mx, jobs, o, stats, "tpmulti:%d:s%d" % (seed, k))
        for i in range(budget(tier, 250, 4000, mult)):
            clients = rng.pick([2, 2, 2, 3, 3, 4]); mx = rng.pick([1, 2, 2, 3, 4]); jobs = rng.pick([1, 2, 3, 4, 6]); o = rng.below(2)
            yield self.mk(rng, clients, mx, jobs, o, stats, "tpmulti:%d:%d" % (seed, i))
    def mk(self, rng, clients, mx, jobs, o, stats, cid):
        stats.bump("tpmulti_clients_%d" % clients); stats.bump("tpmulti_max_%d" % mx)
        lines = ["tp.multi clients=%d max=%d jobs=%d ord=%d" % (clients, mx, jobs, o)]
        lines += ["tp.auto %d" % (rng.next() & 0x3fffffff) for _ in range(60 + 40 * clients + 260 * clients * jobs)]
        return (cid, lines)
    def oracle(self, res):
        fails = []
        if not res:
            return fails
        kv = dict(a.split("=", 1) for a in res[0]["req"].split(" ")[1:])
        clients, mx, jobs, o = int(kv["clients"]), int(kv["max"]), int(kv["jobs"]), int(kv["ord"])
        last = None
        for i, r in enumerate(res):
            real = r["real"]
            if real in ("asan", "abort", "hang") or real.startswith("crash") or real.startswith("exit:"):
                fails.append(("C13", "pool shared by %d clients: the program died / hung: %s %s" % (clients, real, r.get("stderr", "")[-300:]), i)); return fails
            if "mst " not in real:
                continue
            last = (i, real)
            if "PROBLEM=" in real:
                fails.append(("C13", "pool shared by %d clients: %s" % (clients, real[real.index("PROBLEM="):][:200]), i)); return fails
            m = re.search(r" count=(\d+)", real)
            if m and int(m.group(1)) > mx:
                fails.append(("C13", "pool shared by %d clients runs %s worker threads, configured maximum %d" % (clients, m.group(1), mx), i)); return fails
            for c in range(clients):
                m = re.search(r"del%d=\[([^\]]*)\]" % c, real)
                got = [int(x) for x in m.group(1).split(",") if x] if m else []
                if len(set(got)) != len(got) or any(x < 0 or x >= jobs for x in got) or (o and got != list(range(len(got)))):
                    fails.append(("C13", "pool shared by %d clients: client %d was delivered %s (%s; a result twice, a result nobody submitted, or out of order)" % (clients, c, got, "ordered" if o else "unordered"), i)); return fails
            if " done" in real.split(" del0")[0]:
                break
            if real.startswith("pick none"):
                fails.append(("C13", "pool shared by %d clients (max=%d jobs=%d ordered=%d): dead-lock — no thread can run and the pool owner has not returned: %s" % (clients, mx, jobs, o, real[:200]), i)); return fails
        if last is None:
            return fails
        i, real = last
        if "mst done" in real:
            for c in range(clients):
                m = re.search(r"del%d=\[([^\]]*)\]" % c, real)
                got = [int(x) for x in m.group(1).split(",") if x] if m else None
                want = list(range(jobs))
                if got is None or (got != want if o else sorted(got) != want):
                    fails.append(("C13", "pool shared by %d clients: client %d was delivered %s, submitted %s (%s)" % (clients, c, got, want, "in order" if o else "any order"), i))
        elif i == len(res) - 1 and not res[-1].get("cut"):
            en = re.search(r" en=\[([^\]]*)\]", real)
            if en and en.group(1) == "":
                fails.append(("C13", "pool shared by %d clients: every live thread sleeps on a condition variable and the pool owner has not returned: %s" % (clients, real[:200]), i))
        return fails
    def run(self, exe, lines):
        real = vlib.Proc([exe]); model = vlib.Proc([vlib.MODEL_EXE])
        res = []
        try:
            for l in lines:
                rr, side = real.ask(l)
                mr, _ = model.ask(l)
                res.append({"req": l, "real": rr, "model": mr, "side": side})
                if real.dead or model.dead or rr != mr or rr.startswith("pick none") or "PROBLEM" in rr or "mst done" in rr:
                    break
        finally:
            real.close(); model.close()
        if res:
            res[-1]["stderr"] = getattr(real, "stderr", "")[-2000:]
        return res
    def tie_props(self, res, idx):
        return {"C13", "C14"}
    def nontrivial(self, pid, lines, res):
        return bool(res) and any("mst done" in r["real"] for r in res)
    def keep_prefix(self, lines):
        return 1

FAMILIES["tpmulti"] = TpMultiFamily

reg("C13", ["tp", "tpmulti", "pooled"], "mtbl/threadpool.c compiled unmodified into harness/tp_drv.c with every pthread call routed to a deterministic, externally driven scheduler (one turn = one step of the Lean machine, scheduling points at lock attempts, condition waits, thread creation, joins, exits); "
    "pool sizes 1..6, 0..12 jobs, ordered and unordered delivery, random schedules with spurious wake-ups; after every turn the visible state (count, idle list, result queue, outstanding counter, finished flag, per-thread running/cb/res/rq, delivered results) and the sets of enabled and sleeping threads are compared with the machine; "
    "oracle on the real run: count <= max, no result twice, ordered results in order, all results at the end, no deadlock, no mutex misuse; plus writers and sorters with real pools (0..8 threads) under the OS scheduler against the sequential model (byte-identical files, same entries); non-trivial = the run reached the end (tp) / >= 2 blocks or spills (pooled)",
    ["pthread mutex/condition semantics incl. spurious wake-ups (the scheduler implements them); a critical section is one atomic step (rests on data-race freedom, C14)",
     "pooled writer = sequential writer for every interleaving of adds and in-order deliveries (C13_writer), pooled sorter output for every completion order of the chunk jobs (C13_sorter): the two theorems take from the machine that results are delivered in dispatch order / each exactly once / all before the join (C13_order, C13_complete) and from C14 that caller and handler touch disjoint fields",
     "termination is proved through a progress measure for every schedule with finitely many spurious wake-ups (C13_progress, C13_steps_bounded, C13_no_hang, C13_can_finish); that the OS keeps scheduling some runnable thread is assumed",
     "thread creation does not fail",
     "several clients on one pool: the k-client machine MtblModel/TpK.lean (owner, any number of clients each with caller and result handler, shared workers) runs in lockstep with threadpool.c under the deterministic scheduler (tpmulti family: pool, every worker's mailbox, every client's queue / counter / flag / deliveries, enabled and sleeping sets compared after every turn; 1-4 clients); proved for every number of clients: the bound (C13_kclient_bound), exclusive hand-out (C13_kclient_exclusive, _one_holder, _held, _idle), the hand-over protocol (C13_kclient_protocol), per-client delivery in dispatch order, exactly once and complete (C13_kclient_order, _complete, _line; unordered: _unordered_once, _unordered_complete, _unordered_places), no lost wake-up with several sleepers on pool->c (C13_kclient_no_lost_wakeup), clients joined before the pool is destroyed (C13_kclient_joined_first), and NO DEADLOCK: in every reachable state before the owner returns from threadpool_destroy some thread can take a real step (C13_kclient_no_deadlock, _no_hang, _sleepers; needs max >= 1, the guard mtbl_threadpool_init applies; a kernel-checked witness shows a pool of zero workers hangs); plus the abstract pool model TpShare (C13_shared_bound, C13_shared_exclusive, C13_shared_no_lost_wakeup) and the signal-site table regenerated from threadpool.c (C13_signal_sites); and TERMINATION for every number of clients: a potential that every real step decreases and a spurious wake-up increases by at most one, so every schedule takes at most n(128 njobs + 73) + 40 max + 24 real steps plus the spurious wake-ups, and the final state stays reachable (C13_kclient_progress, _steps_bounded, _can_finish), and end to end: every maximal schedule ends with the owner back from threadpool_destroy, no worker left, every client returned and delivered all its results in order / each once (C13_kclient_maximal)"],
    generated=["OwnerSites"], variants=["sched", "A"], max_s={"quick": 150, "thorough": 1800})


# ------------------------------------------------------------------ the concurrent uses the API allows, under ThreadSanitizer (C14)
class MtFamily(Family):
    name = "mt"
    variant = "tsan"
    def cases(self, pid, seed, tier, mult, stats):
        rng = Rng(seed * 32452843 + 9)
        for i in range(budget(tier, 10, 150, mult)):
            callers = rng.pick([1, 2, 3, 4]); pool = rng.pick([1, 2, 3, 4, 8, 16]); readers = rng.pick([0, 2, 4, 8])
            sorters = rng.pick([0, 1, 1, 2]); entries = rng.pick([50, 200, 600, 1500]) + rng.below(40)
            rounds = rng.pick([1, 2, 4]) if tier == "quick" else rng.pick([2, 5, 10])
            stats.bump("mt_callers_%d" % callers); stats.bump("mt_pool_%d" % pool); stats.bump("mt_readers_%d" % readers); stats.bump("mt_sorters_%d" % sorters)
            yield ("mt:%d:%d" % (seed, i), ["mt.run callers=%d pool=%d readers=%d entries=%d seed=%d sorters=%d rounds=%d" % (callers, pool, readers, entries, seed * 100 + i, sorters, rounds)])
    def run(self, exe, lines):
        return vlib.run_script(exe, lines, real_env={"TSAN_OPTIONS": "halt_on_error=1 exitcode=66 report_signal_unsafe=0"})
    def oracle(self, res):
        fails = []
        for i, r in enumerate(res):
            if not r["req"].startswith("mt.run"):
                continue
            real = r["real"]
            if real == "tsan":
                err = r.get("stderr", "")
                m = [l.strip() for l in err.splitlines() if "data race" in l or l.strip().startswith("#0") or l.strip().startswith("#1")]
                fails.append(("C14", "ThreadSanitizer: " + " | ".join(m[:6])[:600], i))
            elif not real.startswith("ok "):
                fails.append(("C14", "concurrent program failed: " + real[:200] + " " + r.get("stderr", "")[-200:], i))
        return fails
    def tie_props(self, res, idx):
        return set()
    def nontrivial(self, pid, lines, res):
        return any(r["real"].startswith("ok ") and "callers=1 " not in r["real"] for r in res) or any(r["real"].startswith("ok ") and "readers=0" not in r["real"] for r in res)
    def keep_prefix(self, lines):
        return 0

FAMILIES["mt"] = MtFamily

reg("C14", ["tp", "tpmulti", "mt"], "static: the access sites of mtbl/threadpool.c (struct, field, read/write, mutexes held) are re-extracted from the source on every run and re-checked against the hand-declared site table and the access labels of the machine (theorems C14_sites_declared, C14_declared_in_model); the field accesses of writer.c / sorter.c per function with pool branch and join markers, and the assignments to the CRC function pointer, are re-extracted and re-checked against the role tables (C14_writer_*, C14_sorter_*, C14_crc_pointer); "
    "dynamic tie of the machines: the tp and tpmulti families of C13 (threadpool.c under the deterministic scheduler in lockstep with the one-client machine and with the k-client machine: several clients on one pool); "
    "search for a concrete race: a ThreadSanitizer build of the library runs 1..4 caller threads, each with its own pooled writer and pooled sorter, sharing ONE pool of 1..16 threads, together with 0..8 threads iterating and querying one shared reader through their own iterators (1..10 rounds, tiny blocks and sorter chunks so that many jobs are in flight); non-trivial = a completed run with >= 2 callers or >= 2 reader threads",
    ["the C11 memory model, compiler transformations, the compression libraries and malloc are not modelled: the theorem is about the ownership/locking discipline of the machine and its agreement with the extracted access sites (partial)",
     "one client: C14_norace over MtblModel/Tp.lean; several clients sharing a pool: C14_norace_shared over the k-client machine MtblModel/TpK.lean, whose access labels are those of the one-client machine evaluated on each thread's view and relabelled with the client's own queue (so the tie to the access-site table carries over); the writer/sorter field partition between caller and result handler (C14_writer_partition, C14_writer_join_first, C14_sorter_partition, C14_sorter_join_first), reader immutability (C14_reader_immutable) and the single writer of the CRC function pointer (C14_crc_pointer) are table theorems over access tables re-extracted lexically from writer.c, sorter.c, reader.c, block.c, libmy/crc32c.c on every run",
     "a critical section is one atomic step of the machine; every pthread_cond_signal is part of the critical section of the mutex that belongs to the same object (table signalLocks re-extracted from threadpool.c on every run, theorem C14_signals_under_mutex): a signal cannot race with the woken thread destroying the condition variable"],
    generated=["AccessSites", "OwnerSites"], variants=["sched", "tsan"], max_s={"quick": 100, "thorough": 1500})


# ------------------------------------------------------------------ resource ledger (C18)
class ResGen:
    """well-formed API life-cycle histories: every object is destroyed exactly once, dependents first"""
    def __init__(self, rng, stats):
        self.rng, self.stats = rng, stats
        self.lines = []; self.objs = {}; self.deps = {}; self.next_id = 0
        self.tables = {}; self.setfiles = {}
    def new_id(self):
        i = self.next_id; self.next_id += 1; return i
    def emit(self, l):
        self.lines.append(l)
    def users(self, i):
        return [j for j, d in self.deps.items() if i in d and j in self.objs]
    def destroy(self, i):
        for j in self.users(i):
            self.destroy(j)
        if i in self.objs:
            self.emit("res.destroy %d" % i); del self.objs[i]; self.deps.pop(i, None)
            self.stats.bump("res_destroy")
    def sources(self):
        return [i for i, o in self.objs.items() if o["k"] in ("reader", "merger", "fileset") and o.get("ok", True)]
    def gen(self, nops):
        rng = self.rng
        if rng.chance(1, 4):
            # every key of the history carries a long common prefix: key buffers (iterators' decoded keys, the writers' last key,
            # the sorters' entries) grow past their initial sizes and are shrunk / reset / handed over on the way
            self.emit("res.kpad %d" % rng.pick([300, 1100, 2000])); self.stats.bump("res_long_keys")
        nt = rng.pick([2, 3, 4])
        for t in range(nt):
            if rng.chance(1, 6):
                self.emit("res.bad %d" % t); self.tables[t] = "bad"
            elif rng.chance(1, 8):
                self.emit("res.bad %d dir" % t); self.tables[t] = "bad"; self.stats.bump("res_table_path_is_a_directory")
            else:
                codec = rng.pick([0, 0, 1, 2, 2, 3, 4, 5]); vlen = rng.pick([0, 0, 700, 3000]) if codec else 0
                self.stats.bump("res_table_codec_%d" % codec); self.stats.bump("res_table_redundant_values" if vlen else "res_table_short_values")
                self.emit("res.table %d %d %d %d %d %d" % (t, rng.pick([0, 1, 5, 20, 60]), rng.pick([1, 2, 3]), rng.below(3), codec, vlen)); self.tables[t] = "table"
        self.emit("res.setfile 0 %s" % ",".join(str(t) for t in range(nt) if rng.chance(2, 3)) or "-")
        if self.lines[-1].endswith(" "):
            self.lines[-1] += "-"
        if rng.chance(1, 4):
            # setfile generations on one shared fileset: each generation really loaded, tables staying for several generations and leaving
            self.stats.bump("res_generation_chain")
            f0 = self.new_id(); self.emit("res.fileset %d 0" % f0); self.objs[f0] = {"k": "fileset", "set": f0}; self.deps[f0] = []
            f1 = None
            member = set(t for t in self.tables if rng.chance(1, 2))
            for g in range(rng.pick([3, 4, 6])):
                for t in self.tables:
                    if rng.chance(1, 3):
                        member ^= {t}
                self.emit("res.setfile 0 %s" % (",".join(str(t) for t in sorted(member)) or "-"))
                self.emit("res.fsreload %d" % f0)
                it = self.new_id(); self.emit("res.iter %d %d iter" % (it, rng.pick([f0] + ([f1] if f1 is not None else []))))
                self.emit("res.next %d 100" % it); self.emit("res.destroy %d" % it); self.next_id  # iterator closed before the next generation
                self.emit("res.count")
                if f1 is None and rng.chance(1, 2):
                    f1 = self.new_id(); self.emit("res.fsdup %d %d" % (f1, f0)); self.objs[f1] = {"k": "fileset", "set": f0}; self.deps[f1] = []
        if rng.chance(1, 5):
            # header entries written first, then a sorter dumped into the same writer: its smallest key does not sort after the
            # header, so the writer refuses it, mtbl_sorter_write reports failure and must still release what it built
            self.stats.bump("res_sorter_write_refused_by_used_writer")
            w = self.new_id(); self.emit("res.writer %d 8" % w); self.objs[w] = {"k": "writer", "closed_for_adds": True}; self.deps[w] = []
            self.emit("res.wadd %d %d %d" % (w, 30 + rng.below(30), rng.pick([0, 10, 100])))
            i = self.new_id(); mem = rng.pick([64, 150, 100000])
            self.emit("res.sorter %d mem=%d pool=- pth=0 merge=cat eo=$i.eo" % (i, mem))
            self.objs[i] = {"k": "sorter", "mem": mem, "pooled": False, "fk": None, "keys": [], "failed": False, "iterating": False, "unsynced": False}
            self.deps[i] = []
            for key in sorted(set(rng.below(30) for _ in range(rng.pick([1, 3, 8]))), reverse=rng.chance(1, 2)):
                self.emit("res.sadd %d %d %d" % (i, key, rng.pick([0, 5, 30]))); self.objs[i]["keys"].append(key)
            self.emit("res.swrite %d %d" % (i, w)); self.objs[i]["iterating"] = True
            self.emit("res.count")
        for _ in range(nops):
            self.op()
            if rng.chance(1, 4) and not any(o["k"] == "sorter" and o.get("pooled") and o.get("unsynced") for o in self.objs.values()):
                self.emit("res.count")
        # abandon everything in a random legal order
        order = list(self.objs)
        for a in range(len(order) - 1, 0, -1):
            b = rng.below(a + 1); order[a], order[b] = order[b], order[a]
        for i in order:
            self.destroy(i)
        return self.lines
    def op(self):
        rng = self.rng
        kind = rng.pick(["reader", "reader", "iter", "iter", "use", "use", "merger", "sorter", "sadd", "sadd", "sadd", "siter", "swrite", "writer", "wadd",
                         "fileset", "fsdup", "fsreload", "setfile", "pool", "destroy", "destroy"])
        self.stats.bump("res_op_" + kind)
        if kind == "reader":
            i = self.new_id(); t = rng.pick(list(self.tables))
            self.emit("res.reader %d %d" % (i, t)); self.objs[i] = {"k": "reader", "ok": self.tables[t] == "table"}; self.deps[i] = []
            if self.tables[t] != "table":
                self.stats.bump("res_reader_not_a_table")
        elif kind == "pool":
            if sum(1 for o in self.objs.values() if o["k"] == "pool") < 2:
                nth = rng.pick([0, 1, 2, 4])        # 0 = a pool object without threads ("multithreading disabled")
                i = self.new_id(); self.emit("res.pool %d %d" % (i, nth)); self.objs[i] = {"k": "pool", "n": nth}; self.deps[i] = []
                self.stats.bump("res_pool_threads_%d" % nth)
        elif kind == "merger":
            srcs = [x for x in self.sources() if rng.chance(1, 2)][:4]
            i = self.new_id(); fail = rng.chance(1, 5)
            self.emit("res.merger %d %s %s" % (i, "fail%d" % rng.below(10) if fail else "cat", ",".join(map(str, srcs)) or "-"))
            self.objs[i] = {"k": "merger"}; self.deps[i] = list(srcs)
        elif kind == "iter":
            srcs = self.sources()
            if srcs:
                src = rng.pick(srcs); i = self.new_id(); k = rng.pick(["iter", "get", "pfx", "range"])
                def has_fileset(j, depth=0):
                    o = self.objs.get(j)
                    return bool(o) and depth < 8 and (o["k"] == "fileset" or (o["k"] == "merger" and any(has_fileset(d, depth + 1) for d in self.deps.get(j, []))))
                if self.objs[src]["k"] == "merger" and has_fileset(src):
                    # a bounded lookup on a merger is NULL when no source has a match, and then its fileset sub-iterators are
                    # released at once; the ledger machine does not track table contents, so it models only the unbounded
                    # iterator of such mergers (whose sub-iterators always live as long as it does)
                    k = "iter"; self.stats.bump("res_iter_merger_over_fileset_unbounded_only")
                a = "" if k == "iter" else " %d" % rng.below(70) if k != "range" else " %d %d" % (rng.below(40), rng.below(70))
                self.emit("res.iter %d %d %s%s" % (i, src, k, a)); self.objs[i] = {"k": "iter"}; self.deps[i] = [src]
                if self.objs[src]["k"] == "fileset":
                    self.objs[i]["set"] = self.objs[src]["set"]
        elif kind == "use":
            its = [i for i, o in self.objs.items() if o["k"] == "iter"]
            if its:
                i = rng.pick(its)
                if self.objs[i].get("sorter_failkey"):
                    return
                self.emit(rng.pick(["res.next %d %d" % (i, rng.pick([1, 3, 100])), "res.seek %d %d" % (i, rng.below(70))]))
        elif kind == "sorter":
            pools = [i for i, o in self.objs.items() if o["k"] == "pool"]
            pool = rng.pick(pools) if pools and rng.chance(1, 2) else None
            i = self.new_id(); fail = rng.chance(1, 4); fk = rng.below(6); mem = rng.pick([64, 100, 150, 300, 100000])
            pth = self.objs[pool]["n"] if pool is not None else 0
            self.emit("res.sorter %d mem=%d pool=%s pth=%d merge=%s eo=$i.eo" % (i, mem, "-" if pool is None else str(pool), pth, "fail%d" % fk if fail else "cat"))
            self.objs[i] = {"k": "sorter", "mem": mem, "pooled": pool is not None and pth > 0, "fk": fk if fail else None, "keys": [], "failed": False, "iterating": False, "unsynced": False}
            self.deps[i] = [pool] if pool is not None else []
            self.stats.bump("res_sorter_pooled" if pool is not None and pth > 0 else "res_sorter_zero_thread_pool" if pool is not None else "res_sorter_unpooled")
        elif kind == "sadd":
            ss = [i for i, o in self.objs.items() if o["k"] == "sorter"]
            if ss:
                i = rng.pick(ss); o = self.objs[i]; key = rng.below(6) if o["fk"] is not None else rng.below(40)
                self.emit("res.sadd %d %d %d" % (i, key, rng.pick([0, 5, 30])))
                if not o["iterating"]:
                    o["keys"].append(key)
                    if o["pooled"]:
                        o["unsynced"] = True
        elif kind in ("siter", "swrite"):
            ss = [i for i, o in self.objs.items() if o["k"] == "sorter"]
            if ss:
                i = rng.pick(ss); o = self.objs[i]
                # a sorter whose merge callback may have failed inside a pooled chunk cannot be iterated (the library asserts on
                # the NULL chunk reader): such sorters are only destroyed.  Unpooled: a failed add is reported, then only destroy.
                risky = o["fk"] is not None and o["keys"].count(o["fk"]) >= 2
                if risky:
                    # unpooled and nothing spilled yet (memory limit never reached): the final flush inside mtbl_sorter_iter reports
                    # the failing callback as a NULL iterator
                    if o["pooled"] or o["mem"] != 100000 or o["iterating"] or o.get("tried") or kind != "siter":
                        return
                    o["tried"] = True
                    j = self.new_id(); self.emit("res.siter %d %d" % (j, i)); self.objs[j] = {"k": "iter", "sorter_failkey": True}; self.deps[j] = [i]
                    self.stats.bump("res_siter_null_after_failed_merge")
                    return
                if kind == "siter":
                    j = self.new_id(); self.emit("res.siter %d %d" % (j, i)); self.objs[j] = {"k": "iter"}; self.deps[j] = [i]
                    o["iterating"] = True; o["unsynced"] = False
                else:
                    open_ws = [j for j, ow in self.objs.items() if ow["k"] == "writer" and not ow.get("closed_for_adds")]
                    if open_ws and rng.chance(1, 2):
                        # into a writer that already holds entries (header entries written first): the sorter's first entries may
                        # be refused by the ordering gate, mtbl_sorter_write then reports failure and must still clean up
                        w = rng.pick(open_ws); self.objs[w]["closed_for_adds"] = True; self.stats.bump("res_sorter_write_into_used_writer")
                    else:
                        w = self.new_id(); self.emit("res.writer %d 9" % w); self.objs[w] = {"k": "writer", "closed_for_adds": True}; self.deps[w] = []
                    self.emit("res.swrite %d %d" % (i, w))
                    if not o["iterating"]:
                        o["iterating"] = True; o["unsynced"] = False
        elif kind == "writer":
            i = self.new_id(); self.emit("res.writer %d 8" % i); self.objs[i] = {"k": "writer"}; self.deps[i] = []
        elif kind == "wadd":
            ws = [i for i, o in self.objs.items() if o["k"] == "writer" and not o.get("closed_for_adds")]
            if ws:
                i = rng.pick(ws); self.emit("res.wadd %d %d %d" % (i, rng.below(60), rng.pick([0, 10, 100])))
        elif kind == "fileset":
            if sum(1 for o in self.objs.values() if o["k"] == "fileset") < 3:
                i = self.new_id(); self.emit("res.fileset %d 0" % i); self.objs[i] = {"k": "fileset", "set": i}; self.deps[i] = []
        elif kind == "fsdup":
            fs = [i for i, o in self.objs.items() if o["k"] == "fileset"]
            if fs:
                o = rng.pick(fs); i = self.new_id(); self.emit("res.fsdup %d %d" % (i, o)); self.objs[i] = {"k": "fileset", "set": self.objs[o]["set"]}; self.deps[i] = []
        elif kind == "fsreload":
            fs = [i for i, o in self.objs.items() if o["k"] == "fileset"]
            if fs:
                self.emit("res.fsreload %d" % rng.pick(fs))
        elif kind == "setfile":
            self.emit("res.setfile 0 %s" % (",".join(str(t) for t in self.tables if rng.chance(1, 2)) or "-"))
        elif kind == "destroy":
            if self.objs:
                self.destroy(rng.pick(list(self.objs)))


class ResFamily(Family):
    name = "res"
    def cases(self, pid, seed, tier, mult, stats):
        for c in self.corpus(pid):
            yield c
        for i in range(budget(tier, 150, 3000, mult)):
            rng = Rng(seed * 49979687 + i * 31 + 3)
            g = ResGen(rng, stats)
            hist = g.gen(rng.pick([4, 8, 15, 30]))
            lines = ["@i sys.info", "res.begin"] + hist + ["res.end warm", "res.begin"] + hist + ["res.end"]
            yield ("res:%d:%d" % (seed, i), lines)
    def oracle(self, res):
        fails = []
        for i, r in enumerate(res):
            real = r["real"]; op = r["req"].split(" ")[0]
            if real in ("asan", "abort", "tsan") or real.startswith("crash") or real.startswith("exit:"):
                fails.append(("C18", "%s died: %s %s" % (r["req"][:60], real, r.get("stderr", "")[-400:].replace("\n", " | ")), i)); break
            if op == "res.end":
                f = dict(x.split("=") for x in real.split(" ") if "=" in x)
                if f.get("fds") != "+0" or f.get("maps") != "+0" or f.get("tmp") != "0" or (f.get("heap") != "+0" and r["req"] == "res.end"):
                    side = " ".join(r.get("side", []))
                    fails.append(("C18", "after every object was destroyed the process still holds: %s %s" % (real, side), i))
        return fails
    def tie_props(self, res, idx):
        return {"C18"}
    def valid(self, lines):
        # a well-formed history: both passes present, every object created is destroyed, nothing is used after its destruction
        if sum(1 for l in lines if l.startswith("res.begin")) != 2 or sum(1 for l in lines if l.startswith("res.end")) != 2:
            return False
        live = {}
        for l in lines:
            t = l.split(" "); op = t[0]
            if op == "res.begin":
                if live:
                    return False
            elif op in ("res.pool", "res.writer", "res.reader", "res.merger", "res.sorter", "res.siter", "res.fileset", "res.fsdup", "res.iter"):
                if t[1] in live:
                    return False
                deps = []
                if op == "res.merger":
                    deps = [] if t[3] == "-" else t[3].split(",")
                elif op in ("res.siter", "res.fsdup", "res.iter"):
                    deps = [t[2]]
                elif op == "res.sorter":
                    deps = [a[5:] for a in t if a.startswith("pool=") and a != "pool=-"]
                if any(d not in live for d in deps):
                    return False
                live[t[1]] = deps
            elif op == "res.destroy":
                if t[1] not in live or any(t[1] in d for d in live.values()):
                    return False
                del live[t[1]]
            elif op in ("res.wadd", "res.sadd", "res.next", "res.seek", "res.fsreload"):
                if t[1] not in live:
                    return False
            elif op == "res.swrite":
                if t[1] not in live or t[2] not in live:
                    return False
            elif op == "res.end":
                if live:
                    return False
        return True
    def nontrivial(self, pid, lines, res):
        return sum(1 for l in lines if l.startswith("res.destroy")) >= 6
    def keep_prefix(self, lines):
        return 2

FAMILIES["res"] = ResFamily

reg("C18", ["res", "open"], "open probes (family open, shared with C19): damaged and truncated tables opened in a child with and without verify_checksums / by descriptor — a call that returns (a reader destroyed again, or NULL) must leave no mapping behind; well-formed API life-cycle histories (4..30 requests, each run twice in one process: a warm-up pass, then the measured pass) over writers (incl. refused adds), readers (incl. files that are not tables), iterators of all four kinds on readers / mergers / filesets (abandoned undrained or drained), mergers over readers, filesets and other mergers (incl. a failing merge callback), sorters with memory limits from one entry per chunk to no spill, unpooled and on shared pools (destroyed before iteration, after iteration, with chunk jobs in flight), mtbl_sorter_write, a merge callback failing inside a chunk or in the final flush, filesets with dup / reload_now / setfile rewrites, thread pools; objects destroyed in a random legal order at random points; "
    "after every request (outside windows with pooled chunk jobs in flight) open descriptors (/proc/self/fd), live reader mappings (mmap shim counter) and files in the sorter's temp directory are compared with the ledger machine; at the end of the history all four must be back at the baseline, heap measured with AddressSanitizer's allocator statistics; non-trivial = at least 6 destroys",
    ["heap is tied only at the end of a history (zero / not zero): allocation counts per request depend on vector growth and are not compared (partial)",
     "descriptor / mapping / temp-file effects of open, dup, close, mmap, mkstemp, unlink are OS contracts",
     "a sorter whose merge callback failed inside a pooled chunk is only destroyed, not iterated (the library asserts on the NULL chunk reader: outside this property)"])
