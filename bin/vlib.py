"""Shared machinery for /verif checks: building the harness from /repo's working tree, running the
Lean model driver and the real-code executor in lockstep over the line protocol, delta-debugging
a disagreement, evidence and verdict output.  Python 3 standard library only."""
import fcntl, hashlib, json, os, shutil, subprocess, sys, time, concurrent.futures, glob, re

VERIF = os.path.dirname(os.path.dirname(os.path.abspath(__file__)))
REPO = os.environ.get("VERIF_REPO", "/repo")
BUILD = os.path.join(VERIF, "build")
LEAN = os.path.join(VERIF, "lean")
HARNESS = os.path.join(VERIF, "harness")
MODEL_EXE = os.path.join(LEAN, ".lake", "build", "bin", "mtbl_model")
NCPU = os.cpu_count() or 4

LIB_DIRECT = ["libmy/crc32c.c", "libmy/crc32c-slicing.c", "libmy/crc32c-sse42.c", "libmy/heap.c",
              "libmy/my_fileset.c", "mtbl/crc32c_wrap.c", "mtbl/fixed.c",
              "mtbl/iter.c", "mtbl/merger.c", "mtbl/metadata.c", "mtbl/source.c", "mtbl/varint.c"]
LIB_TU = ["tu/tu_writer.c", "tu/tu_block.c", "tu/tu_block_builder.c", "tu/tu_reader.c",
          "tu/tu_sorter.c", "tu/tu_fileset.c", "tu/tu_compression.c"]
LIBS = ["-lz", "-lsnappy", "-llz4", "-lzstd", "-lpthread", "-ldl"]


class Lock:
    """serialises translators / lake / harness builds between checks started in parallel"""
    def __init__(self, name="build"):
        os.makedirs(BUILD, exist_ok=True)
        self.path = os.path.join(BUILD, name + ".lock")
    def __enter__(self):
        self.f = open(self.path, "w")
        fcntl.flock(self.f, fcntl.LOCK_EX)
        return self
    def __exit__(self, *a):
        fcntl.flock(self.f, fcntl.LOCK_UN)
        self.f.close()


def sh(cmd, **kw):
    return subprocess.run(cmd, stdout=subprocess.PIPE, stderr=subprocess.STDOUT, text=True, **kw)


def config_h_dir():
    """directory holding config.h: /repo's own if present, else a fallback copy (taken from the pinned tree's configure run)"""
    if os.path.exists(os.path.join(REPO, "config.h")):
        return REPO
    d = os.path.join(BUILD, "cfg")
    os.makedirs(d, exist_ok=True)
    shutil.copy(os.path.join(HARNESS, "config.fallback.h"), os.path.join(d, "config.h"))
    return d


def tree_hash(extra=""):
    h = hashlib.sha256(extra.encode())
    files = []
    for d in ("mtbl", "libmy", "src"):
        for ext in ("*.c", "*.h"):
            files += glob.glob(os.path.join(REPO, d, ext))
    files += glob.glob(os.path.join(HARNESS, "*.[ch]")) + glob.glob(os.path.join(HARNESS, "*", "*.[ch]"))
    cfg = os.path.join(REPO, "config.h")
    if os.path.exists(cfg):
        files.append(cfg)
    for f in sorted(files):
        h.update(f.encode())
        with open(f, "rb") as fh:
            h.update(fh.read())
    return h.hexdigest()[:16]


def build_harness(variant="A", sanitize="address", extra_cflags=(), exe_sources=("exec.c", "ops_table.c", "ops_codec.c"),
                  exe_name="exec", threadpool="plain", tools=("mtbl_verify", "mtbl_dump", "mtbl_info", "mtbl_merge"), link_flags=()):
    """compile the library sources of /repo's working tree + harness into build/<variant>/<exe_name>.
    Returns (path, log).  Rebuilds whenever any source or header changed."""
    cfgdir = config_h_dir()
    cflags = ["-g", "-O1", "-fno-omit-frame-pointer", "-include", os.path.join(cfgdir, "config.h"),
              "-I" + REPO, "-I" + os.path.join(REPO, "mtbl"), "-I" + HARNESS, "-D_GNU_SOURCE"] + list(extra_cflags)
    if sanitize:
        cflags += ["-fsanitize=" + sanitize]
    outdir = os.path.join(BUILD, variant)
    stamp = os.path.join(outdir, exe_name + ".stamp")
    want = tree_hash(" ".join(cflags) + "|" + ",".join(exe_sources) + "|" + threadpool + "|" + ",".join(tools))
    exe = os.path.join(outdir, exe_name)
    if os.path.exists(stamp) and os.path.exists(exe) and open(stamp).read() == want:
        return exe, "cached"
    os.makedirs(outdir, exist_ok=True)
    jobs = []
    for s in LIB_DIRECT:
        jobs.append((os.path.join(REPO, s), []))
    if threadpool == "plain":
        jobs.append((os.path.join(REPO, "mtbl/threadpool.c"), []))
    elif threadpool == "sched":
        jobs.append((os.path.join(REPO, "mtbl/threadpool.c"), ["-include", os.path.join(HARNESS, "shims", "sched.h")]))
    for s in LIB_TU:
        jobs.append((os.path.join(HARNESS, s), []))
    jobs.append((os.path.join(HARNESS, "shims", "shims.c"), []))
    nlib = len(jobs)
    for s in exe_sources:
        jobs.append((os.path.join(HARNESS, s), []))
    ntool0 = len(jobs)
    for t in tools:
        jobs.append((os.path.join(REPO, "src", t + ".c"), []))
    objs, logs = [], []
    def cc(job):
        src, fl = job
        obj = os.path.join(outdir, exe_name + "-" + os.path.basename(src)[:-2] + ".o")
        r = sh(["gcc"] + cflags + fl + ["-c", "-o", obj, src])
        return obj, r.returncode, r.stdout
    with concurrent.futures.ThreadPoolExecutor(NCPU) as ex:
        for obj, rc, out in ex.map(cc, jobs):
            objs.append(obj)
            if rc != 0:
                logs.append(out)
    if logs:
        return None, "\n".join(logs)
    san = (["-fsanitize=" + sanitize] if sanitize else []) + list(link_flags)
    r = sh(["gcc"] + san + ["-o", exe] + objs[:ntool0] + LIBS)
    if r.returncode != 0:
        return None, r.stdout
    for ti, t in enumerate(tools):
        r = sh(["gcc"] + san + ["-o", os.path.join(outdir, t), objs[ntool0 + ti]] + objs[:nlib] + LIBS)
        if r.returncode != 0:
            return None, r.stdout
    dso = os.path.join(HARNESS, "dso", "merge_dso.c")
    if os.path.exists(dso):
        r = sh(["gcc", "-g", "-O1", "-shared", "-fPIC", "-o", os.path.join(outdir, "merge_dso.so"), dso])
        if r.returncode != 0:
            return None, r.stdout
    with open(stamp, "w") as f:
        f.write(want)
    return exe, "built"


def build_tpdrv(sanitize="address"):
    """harness/tp_drv.c (#includes /repo's mtbl/threadpool.c with pthread_* routed to the deterministic scheduler)"""
    cfgdir = config_h_dir()
    outdir = os.path.join(BUILD, "sched"); os.makedirs(outdir, exist_ok=True)
    exe = os.path.join(outdir, "tpdrv"); stamp = exe + ".stamp"
    want = tree_hash("tpdrv|" + str(sanitize))
    if os.path.exists(stamp) and os.path.exists(exe) and open(stamp).read() == want:
        return exe, "cached"
    cmd = ["gcc", "-g", "-O1", "-fno-omit-frame-pointer", "-include", os.path.join(cfgdir, "config.h"), "-I" + REPO, "-I" + os.path.join(REPO, "mtbl"),
           "-I" + HARNESS] + (["-fsanitize=" + sanitize] if sanitize else []) + ["-o", exe, os.path.join(HARNESS, "tp_drv.c"), "-lpthread"]
    r = sh(cmd)
    if r.returncode != 0:
        return None, r.stdout
    with open(stamp, "w") as f:
        f.write(want)
    return exe, "built"


# ---------------------------------------------------------------------------------------------
# Lean side

def lake_build(targets=()):
    t0 = time.time()
    r = sh(["lake", "build"] + list(targets), cwd=LEAN)
    return r.returncode == 0, r.stdout, time.time() - t0


def project_deps(module):
    """transitive imports of `module` inside this lake project (MtblModel / MtblProofs / MtblProps)"""
    seen, todo = [], [module]
    while todo:
        m = todo.pop()
        if m in seen:
            continue
        path = os.path.join(LEAN, *m.split(".")) + ".lean"
        if not os.path.exists(path):
            continue
        seen.append(m)
        for l in open(path):
            mm = re.match(r"^import (Mtbl\S+)", l)
            if mm:
                todo.append(mm.group(1))
    return seen


def leanchecker(modules):
    """re-check compiled modules with the toolchain's independent checker; returns list of (module, ok, tail)"""
    def one(m):
        r = sh(["lake", "env", "leanchecker", m], cwd=LEAN)
        return (m, r.returncode == 0, r.stdout.strip()[-300:])
    with concurrent.futures.ThreadPoolExecutor(8) as ex:
        return list(ex.map(one, modules))


FORBIDDEN = re.compile(r"\b(sorry|admit|native_decide|bv_decide|implemented_by|unsafe)\b|^axiom |maxHeartbeats 0", re.M)

def strip_comments(src):
    # remove /- ... -/ (nested) and -- ... comments
    out, i, depth = [], 0, 0
    while i < len(src):
        if src.startswith("/-", i):
            depth += 1; i += 2; continue
        if depth and src.startswith("-/", i):
            depth -= 1; i += 2; continue
        if depth:
            i += 1; continue
        if src.startswith("--", i):
            j = src.find("\n", i)
            i = len(src) if j < 0 else j
            continue
        out.append(src[i]); i += 1
    return "".join(out)

def grep_forbidden():
    hits = []
    for sub in ("MtblModel", "MtblProofs", "MtblProps"):
        for p in glob.glob(os.path.join(LEAN, sub, "**", "*.lean"), recursive=True):
            body = strip_comments(open(p).read())
            for m in FORBIDDEN.finditer(body):
                hits.append((os.path.relpath(p, LEAN), m.group(0).strip()))
    return hits

ALLOWED_AXIOMS = {"propext", "Classical.choice", "Quot.sound"}

def audit_axioms(theorems, module="MtblProps"):
    """#print axioms for each theorem name; returns {name: (ok, axioms or error)}"""
    if not theorems:
        return {}
    src = ("import %s\n" % module) + "".join("#print axioms %s\n" % t for t in theorems)
    path = os.path.join(BUILD, "audit_%d.lean" % os.getpid())
    os.makedirs(BUILD, exist_ok=True)
    open(path, "w").write(src)
    r = sh(["lake", "env", "lean", path], cwd=LEAN)
    os.unlink(path)
    res = {}
    text = r.stdout
    for t in theorems:
        m = re.search(r"'%s' depends on axioms: \[([^\]]*)\]" % re.escape(t), text, re.S)
        if m:
            ax = [a.strip() for a in m.group(1).replace("\n", " ").split(",") if a.strip()]
            res[t] = (set(ax) <= ALLOWED_AXIOMS, ax)
        elif re.search(r"'%s' does not depend on any axioms" % re.escape(t), text):
            res[t] = (True, [])
        else:
            res[t] = (False, ["<not found: %s>" % text.strip()[-300:]])
    return res


# ---------------------------------------------------------------------------------------------
# lockstep execution of a script on real code and model

class Proc:
    """a line-protocol child process.  Every request has a deadline (VERIF_REQ_TIMEOUT seconds, default 120): a process that
    does not answer in time is killed and its reply is 'hang' — so a change that makes the library (or the model) loop or
    deadlock is a result, not a stuck check."""
    TIMEOUT = float(os.environ.get("VERIF_REQ_TIMEOUT", "120"))
    def __init__(self, argv, env=None):
        e = dict(os.environ)
        e["ASAN_OPTIONS"] = "exitcode=99:detect_leaks=0:abort_on_error=0:allocator_may_return_null=1"
        if env:
            e.update(env)
        # own session: the process and everything it forks (probe children) can be killed together
        self.p = subprocess.Popen(argv, stdin=subprocess.PIPE, stdout=subprocess.PIPE, stderr=subprocess.PIPE, bufsize=0, env=e,
                                  start_new_session=True)
        self.dead = None
        self.buf = b""
        self.errbuf = []
        import threading
        # stderr is drained in the background so that a chatty child can never block on a full pipe
        def drain():
            try:
                while True:
                    c = self.p.stderr.read(65536)
                    if not c:
                        break
                    if sum(len(x) for x in self.errbuf) < 4000000:
                        self.errbuf.append(c)
            except Exception:
                pass
        self.errthread = threading.Thread(target=drain, daemon=True); self.errthread.start()
    def _readline(self, deadline):
        """one line from stdout (without the newline), '' at EOF, None on timeout"""
        import select
        fd = self.p.stdout.fileno()
        while b"\n" not in self.buf:
            left = deadline - time.time()
            if left <= 0:
                return None
            r, _, _ = select.select([fd], [], [], min(left, 5.0))
            if not r:
                continue
            chunk = os.read(fd, 1 << 20)
            if not chunk:
                if self.buf:
                    line, self.buf = self.buf, b""
                    return line.decode("utf-8", "replace")
                return ""
            self.buf += chunk
        line, self.buf = self.buf.split(b"\n", 1)
        return line.decode("utf-8", "replace")
    def ask(self, line, timeout=None):
        """send one request; returns (reply, side_lines). reply 'abort'/'asan'/'crash:<sig>' if the process died,
        'hang' if it did not answer before the deadline."""
        if self.dead:
            return self.dead, []
        try:
            self.p.stdin.write((line + "\n").encode()); self.p.stdin.flush()
        except (BrokenPipeError, OSError):
            return self._died(), []
        return self.recv(timeout)
    def send_many(self, lines):
        """write several requests at once (the child runs them back to back, with no protocol latency in between);
        the replies are then collected one by one with recv()"""
        if self.dead:
            return
        import threading
        data = "".join(l + "\n" for l in lines).encode()
        def w():
            try:
                self.p.stdin.write(data); self.p.stdin.flush()
            except Exception:
                pass
        # written from a thread: a batch larger than the pipe buffer must not block the reader of the replies
        threading.Thread(target=w, daemon=True).start()
    def recv(self, timeout=None):
        if self.dead:
            return self.dead, []
        side = []
        deadline = time.time() + (timeout or self.TIMEOUT)
        while True:
            out = self._readline(deadline)
            if out is None:
                self._killgroup()
                self.p.wait()
                self.dead = "hang"
                self.errthread.join(timeout=2)
                self.stderr = b"".join(self.errbuf).decode("utf-8", "replace")
                return self.dead, side
            if out == "":
                return self._died(), side
            if out.startswith("#"):
                side.append(out); continue
            return out, side
    def _killgroup(self):
        import signal
        try:
            os.killpg(self.p.pid, signal.SIGKILL)
        except Exception:
            try:
                self.p.kill()
            except Exception:
                pass
    def _died(self):
        rc = self.p.wait()
        self._killgroup()
        self.errthread.join(timeout=5)
        err = b"".join(self.errbuf).decode("utf-8", "replace")
        self.stderr = err
        if rc == 66 or "ThreadSanitizer" in err:
            self.dead = "tsan"
        elif rc == 99 or "AddressSanitizer" in err or "runtime error:" in err:
            self.dead = "asan"
        elif rc == -6 or "Assertion" in err:
            self.dead = "abort"
        elif rc < 0:
            self.dead = "crash:%d" % (-rc)
        else:
            self.dead = "exit:%d" % rc
        return self.dead
    def close(self):
        try:
            self.p.stdin.close()
        except Exception:
            pass
        try:
            self.p.wait(timeout=20)
        except Exception:
            self._killgroup()
            try:
                self.p.wait(timeout=5)
            except Exception:
                pass
        self._killgroup()      # stray children of a finished process
        if not hasattr(self, "stderr"):
            self.errthread.join(timeout=2)
            self.stderr = b"".join(self.errbuf).decode("utf-8", "replace")


class Tmp:
    def __init__(self):
        self.d = os.path.join(BUILD, "tmp.%d.%d" % (os.getpid(), int(time.time() * 1000) % 100000))
    def __enter__(self):
        os.makedirs(self.d, exist_ok=True); return self.d
    def __exit__(self, *a):
        shutil.rmtree(self.d, ignore_errors=True)


def run_script(exe, lines, model_pre=(), tmpdir=None, real_env=None):
    """run `lines` (list of request strings) in lockstep.  `$name` tokens are substituted from variables
    bound by lines of the form '@name op …' (bound to the 2nd token of the real reply).
    Returns list of dict(req, real, model, side)."""
    own = None
    if tmpdir is None:
        own = Tmp(); tmpdir = own.__enter__()
    real = Proc([exe, tmpdir], env=real_env)
    model = Proc([MODEL_EXE])
    res, var = [], {}
    try:
        for l in model_pre:
            model.ask(l)
        pending = []
        for raw in lines:
            raw = raw.strip()
            if not raw or raw.startswith("#"):
                continue
            if raw.startswith("&"):
                # "&line": pipelined with the following lines up to and including the next line without "&" — the real
                # process receives the whole batch at once and runs it back to back (plain lockstep ops only)
                pending.append(" ".join(subst(t, var) for t in raw[1:].split(" ")))
                continue
            if pending:
                batch = pending + [" ".join(subst(t, var) for t in raw.split(" "))]
                pending = []
                binds = [b.split(" ", 1)[0][1:] if b.startswith("@") else None for b in batch]
                batch = [b.split(" ", 1)[1] if b.startswith("@") else b for b in batch]
                real.send_many(batch)
                stop = False
                for bi, req in enumerate(batch):
                    r_reply, side = real.recv(timeout=OP_TIMEOUT.get(req.split(" ")[0]))
                    if binds[bi] is not None:
                        parts = r_reply.split(" ")
                        var[binds[bi]] = parts[1] if len(parts) > 1 else "-"
                    for sd in side:
                        if sd.startswith("#ctab ") or sd.startswith("#lib "):
                            model.ask(sd[1:])
                    m_reply, _ = model.ask(req)
                    res.append({"req": req, "real": r_reply, "model": m_reply, "side": side})
                    if real.dead:
                        stop = True; break
                if stop:
                    break
                continue
            bind = None
            toks = raw.split(" ")
            if toks[0].startswith("?"):
                # conditional line: run only if the named variable is bound to something other than "-"
                if var.get(toks[0][1:], "-") == "-":
                    continue
                toks = toks[1:]
            if toks[0].startswith("@"):
                bind = toks[0][1:]; toks = toks[1:]
            toks = [subst(t, var) for t in toks]
            req = " ".join(toks)
            if toks[0] in MODEL_ONLY:
                m_reply, _ = model.ask(req)
                if bind is not None:
                    parts = m_reply.split(" ")
                    var[bind] = parts[1] if len(parts) > 1 else "-"
                    var[bind + ".all"] = " ".join(parts[1:])
                res.append({"req": req, "real": m_reply, "model": m_reply, "side": []})
                continue
            r_reply, side = real.ask(req, timeout=OP_TIMEOUT.get(toks[0]))
            if toks[0] in REAL_ONLY:
                if bind is not None:
                    parts = r_reply.split(" ")
                    var[bind] = parts[1] if len(parts) > 1 else "-"
                    for part in r_reply.split(" ")[1:]:
                        if "=" in part:
                            var[bind + "." + part.split("=", 1)[0]] = part.split("=", 1)[1]
                res.append({"req": req, "real": r_reply, "model": r_reply, "side": side})
                if real.dead:
                    break
                continue
            # oracle data observed from the library goes to the model first
            for s in side:
                if s.startswith("#ctab ") or s.startswith("#lib "):
                    model.ask(s[1:])
            m_reply, _ = model.ask(req)
            if bind is not None:
                parts = r_reply.split(" ")
                var[bind] = parts[1] if len(parts) > 1 else "-"
            res.append({"req": req, "real": r_reply, "model": m_reply, "side": side})
            if real.dead:
                break
    finally:
        real.close(); model.close()
        if own:
            own.__exit__()
    if res:
        res[-1]["stderr"] = getattr(real, "stderr", "")[-3000:]
    return res


REAL_ONLY = {"sys.info", "codec.sweep32", "crc.cpu", "cz.raw", "cz.direct", "cz.libinfo", "cz.gen", "cz.big", "mt.run", "crc.big", "rv.big4g", "wa.huge", "wa.gen", "crc.mt", "crc.edge", "crc.hist", "cz.huge", "crc.early"}
# requests that legitimately take long (multi-gigabyte probes)
OP_TIMEOUT = {"rv.big4g": 1500, "wa.huge": 1500, "crc.big": 900, "codec.sweep32": 1500, "mt.run": 600, "cz.big": 600}
MODEL_ONLY = {"enc.raw", "enc.legal", "enc.file", "ctab", "cz.plan", "f.validate", "tp.enum"}


def subst(t, var):
    if "$" not in t:
        return t
    for k in sorted(var, key=len, reverse=True):
        t = t.replace("$" + k, var[k])
    return t


def first_disagreement(res):
    for i, r in enumerate(res):
        if r["real"] != r["model"]:
            return i
    return None


def ddmin(lines, fails, keep_prefix=0, budget=400):
    """classic delta debugging on script lines; `fails(lines) -> bool`"""
    n = 2
    cur = list(lines)
    calls = 0
    while len(cur) - keep_prefix >= 2 and calls < budget:
        body = cur[keep_prefix:]
        chunk = max(1, len(body) // n)
        reduced = False
        for i in range(0, len(body), chunk):
            cand = cur[:keep_prefix] + body[:i] + body[i + chunk:]
            calls += 1
            if fails(cand):
                cur = cand; n = max(n - 1, 2); reduced = True
                break
            if calls >= budget:
                break
        if not reduced:
            if chunk == 1:
                break
            n = min(len(body), n * 2)
    return cur


# ---------------------------------------------------------------------------------------------
# deterministic PRNG (splitmix64) so that every random choice derives from VERIF_SEED

class Rng:
    def __init__(self, seed):
        self.s = seed & 0xFFFFFFFFFFFFFFFF
    def next(self):
        self.s = (self.s + 0x9E3779B97F4A7C15) & 0xFFFFFFFFFFFFFFFF
        z = self.s
        z = ((z ^ (z >> 30)) * 0xBF58476D1CE4E5B9) & 0xFFFFFFFFFFFFFFFF
        z = ((z ^ (z >> 27)) * 0x94D049BB133111EB) & 0xFFFFFFFFFFFFFFFF
        return z ^ (z >> 31)
    def below(self, n):
        return self.next() % n if n > 0 else 0
    def chance(self, num, den):
        return self.below(den) < num
    def pick(self, xs):
        return xs[self.below(len(xs))]
    def fork(self, tag):
        return Rng(self.next() ^ (hash_tag(tag)))

def hash_tag(tag):
    return int.from_bytes(hashlib.sha256(str(tag).encode()).digest()[:8], "big")


def hx(b):
    return b.hex() if b else "-"

def unhx(s):
    return b"" if s == "-" else bytes.fromhex(s)


# ---------------------------------------------------------------------------------------------
# evidence / verdict

def write_evidence(pid, tier, seed, coverage, wall, violations, assumptions):
    os.makedirs(os.path.join(VERIF, "evidence"), exist_ok=True)
    ev = {"property_id": pid, "tier": tier, "seed": seed, "level": "proof", "coverage": coverage,
          "assumptions": assumptions, "wall_s": round(wall, 2), "violations": violations}
    with open(os.path.join(VERIF, "evidence", pid + ".json"), "w") as f:
        json.dump(ev, f, indent=1)


def write_replay(pid, name, content):
    d = os.path.join(VERIF, "replays")
    os.makedirs(d, exist_ok=True)
    p = os.path.join(d, "%s-%s.txt" % (pid, name))
    with open(p, "w") as f:
        f.write(content)
    return p
