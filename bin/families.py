"""Case generators (op scripts) and property oracles (the Spec layer evaluated on what the real code
returned) for the correspondence families.  Every random choice comes from a vlib.Rng."""
import collections, functools
from vlib import Rng, hx, unhx

ALPHA = [0x00, 0x01, 0x7f, 0x80, 0xfe, 0xff, ord('a'), ord('b')]


class Stats(collections.Counter):
    def bump(self, k, n=1):
        self[k] += n


def gen_keys(rng, n, stats, long_ok=True):
    """prefix-tree shaped keys: long shared prefixes, proper prefixes, one-byte extensions, neighbours"""
    pool = [b""]
    keys = set()
    if rng.chance(1, 2):
        keys.add(b"")
    tries = 0
    while len(keys) < n and tries < 10 * n + 10:
        tries += 1
        base = rng.pick(pool)
        r = rng.below(23)
        if r >= 20:
            # separator stress: two neighbours that differ by one at byte d and are both longer than d+2, the first with 0xff / 0xfe /
            # 0x00 right after the differing byte (the 16-bit increment branch of bytes_shortest_separator, carry included)
            d = rng.pick([0x00, 0x7f, 0xfe, 0x61, rng.below(255)])
            x = rng.pick([0xff, 0xff, 0xfe, 0x00, rng.below(256)])
            tail1 = bytes(rng.pick(ALPHA) for _ in range(1 + rng.below(3)))
            tail2 = bytes(rng.pick(ALPHA) for _ in range(2 + rng.below(3)))
            keys.add(base + bytes([d, x]) + tail1)
            k = base + bytes([d + 1]) + tail2
            stats.bump("keys_separator_carry_pair")
        elif r < 12:
            k = base + bytes(rng.pick(ALPHA) for _ in range(1 + rng.below(3)))
        elif r < 15:
            k = base + bytes([rng.below(256)])
        elif r < 17 and base:
            # neighbour: increment / decrement last byte
            b = base[-1]
            k = base[:-1] + bytes([(b + 1) % 256 if rng.chance(1, 2) else (b - 1) % 256])
        elif r < 18 and long_ok:
            # lengths straddling 127/128 (two-byte varints)
            k = base + bytes([rng.pick(ALPHA)]) * (120 + rng.below(16))
        elif r < 19 and long_ok and rng.chance(1, 6):
            k = base + bytes([rng.pick(ALPHA)]) * (16380 + rng.below(8))
        else:
            k = bytes(rng.below(256) for _ in range(rng.below(6)))
        if len(k) > 17000:
            continue
        keys.add(k)
        if len(pool) < 64:
            pool.append(k)
    ks = sorted(keys)
    for k in ks:
        stats.bump("keylen<8" if len(k) < 8 else "keylen<128" if len(k) < 128 else "keylen<16384" if len(k) < 16384 else "keylen>=16384")
        if any(b >= 0x80 for b in k):
            stats.bump("key_has_byte>=0x80")
    if b"" in keys:
        stats.bump("tables_with_empty_key")
    return ks


def gen_val(rng, stats, bs):
    r = rng.below(16)
    if r < 4:
        stats.bump("val_empty"); return b""
    if r < 11:
        return bytes(rng.below(256) for _ in range(1 + rng.below(6)))
    if r < 13:
        return bytes([rng.below(256)]) * (120 + rng.below(16))
    if r < 14:
        stats.bump("val_gt_block"); return bytes(rng.below(256) for _ in range(bs + rng.below(50)))
    if r < 15 and rng.chance(1, 8):
        stats.bump("val_16k"); return bytes([rng.below(256)]) * (16380 + rng.below(8))
    return bytes(rng.below(256) for _ in range(rng.below(40)))


LEVELS = {1: ["d"], 2: ["d", "-5", "0", "1", "6", "9", "30"], 3: ["d"], 4: ["d", "-3", "0", "1", "9", "12", "40"],
          5: ["d", "-99999999", "-7", "0", "1", "3", "19", "22", "1000"], 0: ["d"]}


def gen_wcfg(rng, stats, comp=None, small=True):
    comp = rng.below(6) if comp is None else comp
    level = rng.pick(LEVELS[comp])
    if small:
        minbs = 16
        bs = rng.pick([0, 16, 24, 32, 48, 64, 100, 200, 400, 1024, 5000])
    else:
        minbs = None
        bs = rng.pick([0, 512, 1024, 1500, 4096, 8192])
    if rng.chance(1, 12):
        # block sizes that do not fit 32 bits (format v2 exists for them; the size is only a threshold, so this costs nothing)
        bs = rng.pick([4294967295, 4294967296, 4294967296 + 4096, 1 << 40, (1 << 32) + 1024]); stats.bump("block_size_4GiB_and_more")
    ri = rng.pick([1, 1, 2, 2, 3, 4, 5, 8, 16, 20])
    pre = bytes(rng.below(256) for _ in range(rng.pick([0, 0, 1, 7, 100, 511, 512, 700]))) if rng.chance(1, 3) else b""
    stats.bump("comp=%d" % comp); stats.bump("level=" + ("default" if level == "d" else "explicit"))
    if pre:
        stats.bump("foreign_prefix")
    pos = ""
    if pre and rng.chance(1, 2):
        # where the descriptor stands when the writer gets it: in front of further bytes (rewritten in place), or moved
        # forward in an empty file (a reserved header: it reads as zeros)
        if rng.chance(1, 2):
            pos = " pos=inside"
        else:
            pos = " pos=hole"; pre = bytes(len(pre))
        stats.bump("writer_fd" + pos.replace(" pos=", "_position_"))
    a = "comp=%d level=%s bs=%d ri=%d pre=%s%s" % (comp, level, bs, ri, hx(pre), pos)
    if minbs is not None:
        a += " minbs=%d" % minbs
    if small and rng.chance(1, 8):
        # the 32-bit restart-offset threshold (UINT32_MAX in block_builder.c / block.c) lowered in the harness translation
        # units: blocks whose entry region exceeds it get 64-bit restart arrays, on the writer side too
        a += " thr=%d" % rng.pick([8, 40, 200]); stats.bump("writer_lowered_restart_threshold")
    return a, comp, bs, ri


# ---------------------------------------------------------------------------------------------
# Spec layer in python: cursor over a sorted entry list

def in_bound(kind, key):
    k = kind[0]
    if k == "iter":
        return True
    if k == "get":
        return key == kind[1]
    if k == "pfx":
        return key.startswith(kind[1])
    if k == "range":
        return key <= kind[2]
    raise ValueError(k)


def lower_bound(entries, k):
    i = 0
    while i < len(entries) and entries[i][0] < k:
        i += 1
    return i


class Cursor:
    """Spec cursor: entries sorted by key (duplicates allowed); kind = ('iter',)|('get',k)|('pfx',p)|('range',k0,k1)"""
    def __init__(self, entries, kind):
        self.es = entries; self.kind = kind
        start = b"" if kind[0] == "iter" else kind[1]
        self.start = start
        self.pos = lower_bound(entries, start); self.stuck = False
    def next(self):
        if self.stuck:
            return None
        if self.pos < len(self.es) and in_bound(self.kind, self.es[self.pos][0]):
            e = self.es[self.pos]; self.pos += 1; return e
        self.stuck = True
        return None
    def seek(self, k):
        self.pos = lower_bound(self.es, k); self.stuck = False


def kind_args(kind):
    if kind[0] == "iter":
        return "iter"
    if kind[0] == "range":
        return "range %s %s" % (hx(kind[1]), hx(kind[2]))
    return "%s %s" % (kind[0], hx(kind[1]))


def gen_query_key(rng, keys, seps=()):
    """structured query: stored key, neighbour, proper prefix, one-byte extension, separator, random"""
    r = rng.below(10)
    if keys and r < 6:
        k = rng.pick(keys)
        m = rng.below(6)
        if m == 0:
            return k
        if m == 1:
            return k + bytes([rng.pick(ALPHA)])
        if m == 2 and k:
            return k[:rng.below(len(k))]
        if m == 3 and k:
            return k[:-1] + bytes([(k[-1] + 1) % 256])
        if m == 4 and k:
            return k[:-1] + bytes([(k[-1] - 1) % 256]) + (b"\xff" if rng.chance(1, 2) else b"")
        return k + b"\x00"
    if seps and r < 8:
        k = rng.pick(seps)
        m = rng.below(3)
        return k if m == 0 else k + b"\x00" if m == 1 else (k[:-1] if k else k)
    return bytes(rng.pick(ALPHA) for _ in range(rng.below(4)))


def gen_kind(rng, keys, which=None):
    which = rng.below(4) if which is None else which
    if which == 0:
        return ("iter",)
    a = gen_query_key(rng, keys)
    if which == 1:
        return ("get", a)
    if which == 2:
        if a and rng.chance(1, 2):
            a = a[:rng.below(len(a) + 1)]
        return ("pfx", a)
    b = gen_query_key(rng, keys)
    if rng.chance(1, 5):
        # one bound a proper prefix of the other (scan from a prefix to prefix + suffix; the harness passes both out of one buffer)
        b = a + bytes(rng.pick([0x00, 0x61, 0x7a, 0xff]) for _ in range(rng.pick([1, 2, 4])))
        if rng.chance(1, 6):
            a, b = b, a
        return ("range", a, b)
    if rng.chance(3, 4) and a > b:
        a, b = b, a
    return ("range", a, b)


def history_ops(rng, prefix, iid, cursor, keys, nops, stats, seps=()):
    """random next/seek history on iterator `iid`; seeks respect the property's 'k at or after the start of the range'.
    The spec cursor is advanced alongside so that "the key just returned" and "a key inside a group of equal keys that
    was partly consumed" are real, frequent targets."""
    lines = []
    last = None
    import copy
    cur = copy.copy(cursor)
    for _ in range(nops):
        r = rng.below(10)
        if r < 4:
            k = gen_query_key(rng, keys, seps)
            m = rng.below(8)
            if m <= 1 and last is not None:
                k = last; stats.bump("seek_to_key_just_returned")
            if k < cursor.start:
                k = cursor.start
            lines.append("%s.seek %d %s" % (prefix, iid, hx(k)))
            cur.seek(k)
            stats.bump("op_seek")
        else:
            lines.append("%s.next %d" % (prefix, iid))
            e = cur.next()
            if e is not None:
                last = e[0]
            stats.bump("op_next")
    return lines


def systematic_targets(keys, seps=()):
    """every stored key, its immediate successor string, a predecessor, plus the separators and the two ends"""
    T = {b"", b"\xff\xff\xff"}
    for k in list(keys) + list(seps):
        T.add(k); T.add(k + b"\x00")
        if k:
            T.add(k[:-1]); T.add(k[:-1] + bytes([k[-1] - 1]) + b"\xff" if k[-1] else k[:-1])
            T.add(k[:-1] + bytes([(k[-1] + 1) % 256]) if k[-1] != 255 else k + b"\x01")
    return sorted(T)


def systematic_histories(rng, prefix, rid, first_iid, entries, kinds, stats, seps=(), budget=400, close_op=True):
    """small-scope exhaustive part: for each iterator kind, EVERY (state reached by a prelude, seek target) pair on this table:
    preludes = nothing | j x next (j = 1 .. n+1, i.e. every position incl. exhausted) | seek(t1) | seek(t1), next;
    then seek(t2), next, next.  One fresh iterator per history (closed afterwards).  `budget` caps the number of histories
    (a random subset is taken when the full product is larger)."""
    keys = [k for k, _ in entries]
    T = systematic_targets(keys, seps)
    n = len(keys)
    hist = []
    for kind in kinds:
        start = b"" if kind[0] == "iter" else kind[1]
        Tk = [t for t in T if t >= start] or [start]
        pre = [[]] + [["next"] * j for j in range(1, n + 2)]
        for t1 in (Tk if len(Tk) <= 6 else [Tk[i] for i in sorted(set(rng.below(len(Tk)) for _ in range(6)))]):
            pre.append([("seek", t1)]); pre.append([("seek", t1), "next"]); pre.append(["next", ("seek", t1)])
        for p in pre:
            for t2 in Tk:
                hist.append((kind, p + [("seek", t2), "next", "next"]))
    if len(hist) > budget:
        idx = sorted(set(rng.below(len(hist)) for _ in range(budget * 2)))[:budget]
        hist = [hist[i] for i in idx]
    lines = []; iid = first_iid
    for kind, ops in hist:
        lines.append("%s.it %d %d %s" % (prefix, rid, iid, kind_args(kind)))
        for o in ops:
            lines.append("%s.next %d" % (prefix, iid) if o == "next" else "%s.seek %d %s" % (prefix, iid, hx(o[1])))
        if close_op:
            lines.append("%s.close %d" % (prefix, iid))
        iid += 1
        stats.bump("systematic_history")
    return lines


def gen_table_systematic(rng, stats):
    """a small table (2..7 keys spread over 1..n blocks) with the exhaustive (prelude, seek target) histories on it"""
    n = rng.pick([2, 3, 4, 5, 6, 7])
    keys = gen_keys(rng, n, stats, long_ok=False)
    comp = rng.pick([0, 0, 0, 1, 2, 5])
    bs = rng.pick([16, 20, 24, 32, 48, 64, 200]); ri = rng.pick([1, 1, 2, 2, 3, 4])
    lines = ["reset", "w.new 1 comp=%d level=d bs=%d ri=%d pre=- minbs=16" % (comp, bs, ri)]
    ents = []
    for k in keys:
        v = bytes(rng.below(256) for _ in range(rng.pick([0, 1, 2, 5, 9])))
        ents.append((k, v)); lines.append("w.add 1 %s %s" % (hx(k), hx(v)))
    lines += ["@f w.fin 1", "r.openw 2 1 verify=%d madv=0" % rng.below(2)]
    kinds = [("iter",)]
    k0 = gen_kind(rng, keys, which=1 + rng.below(3))
    kinds.append(k0)
    # a range that starts at (or before) the first key and ends inside the table: it spans several blocks, and seeks can
    # land in the block that holds its end or beyond it
    hi = keys[min(len(keys) - 1, max(1, (2 * len(keys)) // 3))]
    kinds.append(("range", rng.pick([b"", keys[0]]), rng.pick([hi, hi + b"\x00", hi[:-1] if hi else hi])))
    stats.bump("systematic_table")
    return lines + systematic_histories(rng, "r", 2, 10, ents, kinds, stats, budget=450)


# ---------------------------------------------------------------------------------------------
# table family: writer + reader + iterators   (C01 C02 C03 C08 C09 C10)

def gen_dump_opts(rng, keys, stats):
    o = ""
    if rng.chance(3, 4):
        o += " x=1"
    if rng.chance(1, 10):
        o += " s=1"
    nonempty = [k for k in keys if k]
    if rng.chance(1, 2):
        if nonempty and rng.chance(3, 4):
            k = rng.pick(nonempty); p = k[:1 + rng.below(min(len(k), 3))]
        else:
            p = bytes(rng.pick(ALPHA) for _ in range(1 + rng.below(2)))
        o += " k=" + p.hex(); stats.bump("dump_key_prefix")
    if rng.chance(1, 4):
        o += " v=" + bytes([rng.pick([0x41, 0x42, 0xa9, 0x00])]).hex(); stats.bump("dump_val_prefix")
    if rng.chance(1, 3):
        o += " K=%d" % rng.pick([1, 2, 3, 5, 129]); stats.bump("dump_key_min")
    if rng.chance(1, 4):
        o += " V=%d" % rng.pick([1, 2, 4, 64]); stats.bump("dump_val_min")
    return o


def py_print_string(b):
    out = '"'
    for c in b:
        if 0x20 <= c <= 0x7e:
            out += '\\"' if c == 0x22 else chr(c)
        else:
            out += "\\x%02x" % c
    return out + '"'


def py_hex_string(b):
    return "%08x:" % len(b) + "-".join("%02x" % c for c in b)


def py_dump(entries, kv):
    if kv.get("s") == "1":
        return b""
    kp = bytes.fromhex(kv["k"]) if "k" in kv else None
    vp = bytes.fromhex(kv["v"]) if "v" in kv else None
    kmin = int(kv.get("K", "0")); vmin = int(kv.get("V", "0"))
    fmt = py_hex_string if kv.get("x") == "1" else py_print_string
    out = []
    for k, v in entries:
        if kp is not None and not k.startswith(kp):
            continue
        if vp is not None and not v.startswith(vp):
            continue
        if len(k) < kmin or len(v) < vmin:
            continue
        out.append(fmt(k) + " " + fmt(v) + "\n")
    return "".join(out).encode("latin-1")


def fnv1a64(b):
    h = 0xcbf29ce484222325
    for c in b:
        h = ((h ^ c) * 0x100000001b3) & 0xffffffffffffffff
    return h


def gen_table_case(rng, stats, mode="mixed", comp=None, small=True, nkeys=None, pool=None, keys_override=None):
    """returns script lines.  mode: 'sorted' (C01), 'unsorted' (C08), 'mixed'"""
    cfg, comp, bs, ri = gen_wcfg(rng, stats, comp=comp, small=small)
    if pool is not None:
        cfg += " pool=%d" % pool
    n = nkeys if nkeys is not None else rng.pick([0, 1, 2, 3, 5, 8, 12, 20, 30])
    keys = gen_keys(rng, n, stats, long_ok=(comp == 0 or rng.chance(1, 4)))
    if keys_override is not None:
        keys = list(keys_override)
    lines = ["reset", "w.new 1 " + cfg]
    adds = list(keys)
    unsorted = mode == "unsorted" or (mode == "mixed" and rng.chance(1, 3))
    if unsorted and adds:
        # insert refusals: duplicates, smaller keys, prefixes of the last key
        extra = []
        for k in adds:
            extra.append(k)
            r = rng.below(6)
            if r == 0:
                extra.append(k)
            elif r == 1:
                extra.append(rng.pick(adds))
            elif r == 2 and k:
                extra.append(k[:-1])
            elif r == 3:
                extra.append(gen_query_key(rng, adds))
        adds = extra
        stats.bump("tables_with_refusals")
    effbs = max(min(bs, 8192), 16 if small else 1024)
    # with a pool: a block that takes long to compress (tens of kilobytes of noise) followed at once by tiny blocks — the
    # tiny ones are ready while the big one is still in flight, so only the ordered result queue keeps the file in order
    inflight = bool(pool) and bs < 4096 and rng.chance(1, 3)
    if inflight:
        stats.bump("pooled_big_block_in_flight_then_tiny_blocks")
    bigpos = rng.pick([min(1, len(adds) - 1), max(0, len(adds) - 2)])      # early, or right before a tiny LAST block (flushed by finish)
    for ai, k in enumerate(adds):
        if inflight and ai == bigpos:
            v = bytes(rng.below(256) for _ in range(40000 + rng.below(30000)))
        elif inflight:
            v = bytes(rng.below(256) for _ in range(rng.below(5)))
        else:
            v = gen_val(rng, stats, effbs)
        # in-flight shape: the adds and the finish reach the library back to back (pipelined, no protocol latency in between)
        lines.append(("&" if inflight else "") + "w.add 1 %s %s" % (hx(k), hx(v)))
    lines.append("@f w.fin 1")
    lines.append("f.validate %s file=$f" % " ".join(a for a in cfg.split(" ") if not a.startswith(("level=", "pool="))))
    lines.append("w.prefix 1")
    # the tools built from the tree, on the finished file
    prehex = dict(a.split("=", 1) for a in cfg.split(" ") if "=" in a).get("pre", "-")
    thr = dict(a.split("=", 1) for a in cfg.split(" ") if "=" in a).get("thr")
    if thr is None:
        # (the tools are separate binaries built with the real threshold: not run on lowered-threshold files)
        lines.append("blob 9 %s$f" % ("" if prehex == "-" else prehex))
        lines.append("tool.info 9")
        for _ in range(rng.pick([1, 2])):
            lines.append("tool.dump 9" + gen_dump_opts(rng, keys, stats))
    verify = rng.below(2)
    lines.append("r.openw 2 1 verify=%d madv=%d%s" % (verify, rng.below(2), "" if thr is None else " thr=" + thr))
    # full iteration
    lines.append("r.it 2 10 iter")
    for _ in range(len(keys) + 2):
        lines.append("r.next 10")
    # lookups
    iid = 11
    for _ in range(rng.pick([2, 4, 6])):
        kind = gen_kind(rng, keys, which=1 + rng.below(3))
        lines.append("r.it 2 %d %s" % (iid, kind_args(kind)))
        for _ in range(rng.pick([2, 3, len(keys) + 1])):
            lines.append("r.next %d" % iid)
        iid += 1
    # two lookups alive at once on the same reader, their steps interleaved: each iterator keeps its own position (in the
    # index block too) whatever the other one does in between
    for _ in range(rng.pick([1, 2, 2])):
        ka = gen_kind(rng, keys, which=2 + rng.below(2)); kb = gen_kind(rng, keys, which=1 + rng.below(3))
        if keys and rng.chance(1, 2):
            ka = ("range", min(keys), max(keys))          # spans every block
        ia, ib = iid, iid + 1; iid += 2
        lines.append("r.it 2 %d %s" % (ia, kind_args(ka)))
        for _ in range(rng.pick([0, 1, 3])):
            lines.append("r.next %d" % ia)
        lines.append("r.it 2 %d %s" % (ib, kind_args(kb)))
        for _ in range(len(keys) + 3):
            lines.append("r.next %d" % rng.pick([ia, ia, ib]))
        stats.bump("two_live_lookups_interleaved")
    # seek/next histories on all kinds, interleaved between two iterators
    for _ in range(rng.pick([1, 2, 3])):
        kind = gen_kind(rng, keys)
        lines.append("r.it 2 %d %s" % (iid, kind_args(kind)))
        cur = Cursor([(k, b"") for k in keys], kind)
        lines += history_ops(rng, "r", iid, cur, keys, rng.pick([4, 8, 12, 16]), stats)
        iid += 1
    return lines


def oracle_table(res, stats=None):
    """evaluate C01/C02/C03/C08/C10 directly on what the real code returned.  Returns list of (prop, message, index)"""
    fails = []
    writers = {}      # id -> dict(accepted=[(k,v)], last=None, count)
    readers = {}      # rid -> entries
    iters = {}        # iid -> Cursor or None (NULL iterator)
    for i, r in enumerate(res):
        t = r["req"].split(" "); op = t[0]; real = r["real"]
        for s in r.get("side", []):
            if s.startswith("#!"):
                fails.append(("C03", "runtime check: " + s[2:], i))
        if real == "asan":
            fails.append(("*", "AddressSanitizer report / crash: " + r.get("stderr", "")[-400:], i)); break
        if real.startswith("crash"):
            fails.append(("*", "process died: " + real, i)); break
        if op == "reset":
            writers, readers, iters, blobs = {}, {}, {}, {}
        elif op == "w.new":
            kvs = dict(a.split("=", 1) for a in t[3:] if "=" in a) if len(t) > 3 else {}
            kvs = dict(a.split("=", 1) for a in t[2:] if "=" in a)
            writers[t[1]] = {"acc": [], "kv": kvs, "adds": 0}
        elif op == "w.add":
            w = writers[t[1]]; k, v = unhx(t[2]), unhx(t[3])
            expect_ok = (not w["acc"]) or k > w["acc"][-1][0]
            if real not in ("ok", "fail"):
                fails.append(("C08", "add ended in %s" % real, i)); break
            if (real == "ok") != expect_ok:
                fails.append(("C08", "add of %s after %s returned %s" % (t[2], hx(w["acc"][-1][0]) if w["acc"] else "nothing", real), i))
            if real == "ok":
                w["acc"].append((k, v))
        elif op == "w.fin":
            if not real.startswith("file "):
                fails.append(("C01", "finish ended in %s" % real, i)); break
            writers[t[1]]["file"] = unhx(real.split(" ")[1])
        elif op == "f.validate":
            if real != "valid ok":
                fails.append(("C09", "the independent decoder rejects the written file: " + real, i))
        elif op == "w.prefix":
            w = writers[t[1]]
            if real != "pre " + w["kv"].get("pre", "-"):
                fails.append(("C09", "foreign prefix bytes changed", i))
        elif op == "r.openw":
            w = writers[t[2]]
            if not real.startswith("ok "):
                fails.append(("C01", "written file does not open: %s" % real, i)); break
            readers[t[1]] = w["acc"]
            f = real.split(" ")
            acc = w["acc"]
            # C10: trailer statistics vs recount
            exp = {"entries": len(acc), "bk": sum(len(k) for k, _ in acc), "bv": sum(len(v) for _, v in acc)}
            got = {"entries": int(f[5]), "bk": int(f[9]), "bv": int(f[10])}
            if exp != got:
                fails.append(("C10", "trailer counts %s != recount %s" % (got, exp), i))
            if f[1] != "v2":
                fails.append(("C10", "format version " + f[1], i))
            if int(f[4]) != int(w["kv"].get("comp", "0")):
                fails.append(("C10", "compression field %s" % f[4], i))
            fl = w.get("file", b"")
            pre = len(unhx(w["kv"].get("pre", "-")))
            lay = walk_layout(fl, pre)
            if lay is None:
                fails.append(("C09", "file layout does not walk", i))
            else:
                nblocks, bytes_data, io, bytes_index = lay
                if (int(f[2]), int(f[6]), int(f[7]), int(f[8])) != (io, nblocks, bytes_data, bytes_index):
                    fails.append(("C10", "trailer (index_off, blocks, bytes_data, bytes_index)=%s layout=%s" %
                                  ((int(f[2]), int(f[6]), int(f[7]), int(f[8])), (io, nblocks, bytes_data, bytes_index)), i))
                minbs = int(w["kv"].get("minbs", "1024")); bs = int(w["kv"].get("bs", "8192"))
                if int(f[3]) != max(bs, minbs):
                    fails.append(("C10", "block size field %s" % f[3], i))
        elif op == "blob":
            blobs[t[1]] = next(iter(writers)) if writers else None      # the blob is the file of the (only) writer
        elif op == "tool.dump":
            w = writers.get(blobs.get(t[1]) or "", None)
            if w is None:
                continue
            kvs = dict(a.split("=", 1) for a in t[2:] if "=" in a)
            want = py_dump(w["acc"], kvs)
            f = dict(x.split("=", 1) for x in real.split(" ")[1:] if "=" in x)
            if f.get("exit") != "0":
                fails.append(("C01", "mtbl_dump %s ended with %s" % (" ".join(t[2:]), real[:80]), i)); continue
            got = f.get("out", "")
            ok = (got == "#%d" % fnv1a64(want)) if got.startswith("#") else (unhx(got) == want)
            if not ok or int(f.get("n", "-1")) != want.count(b"\n"):
                fails.append(("C01", "mtbl_dump %s printed %s lines, not the matching subsequence of what was added (%d lines expected)" % (" ".join(t[2:]), f.get("n"), want.count(b"\n")), i))
        elif op == "tool.info":
            w = writers.get(blobs.get(t[1]) or "", None)
            if w is None or "file" not in w:
                continue
            f = dict(x.split("=", 1) for x in real.split(" ")[1:] if "=" in x)
            acc = w["acc"]; fl = w["file"]; pre = len(unhx(w["kv"].get("pre", "-")))
            lay = walk_layout(fl, pre)
            if f.get("exit") != "0" or lay is None:
                fails.append(("C10", "mtbl_info ended with %s" % real[:100], i)); continue
            nblocks, bytes_data, io, bytes_index = lay
            names = ["none", "snappy", "zlib", "lz4", "lz4hc", "zstd"]
            want = {"size": pre + len(fl), "ibo": io, "ib": bytes_index, "db": bytes_data, "bs": max(int(w["kv"].get("bs", "8192")), int(w["kv"].get("minbs", "1024"))),
                    "dbc": nblocks, "ec": len(acc), "kb": sum(len(k) for k, _ in acc), "vb": sum(len(v) for _, v in acc)}
            got = {k: (int(f[k]) if f.get(k, "?").isdigit() else None) for k in want}
            if got != want or f.get("algo") != names[int(w["kv"].get("comp", "0"))]:
                fails.append(("C10", "mtbl_info prints %s algo=%s, the file's actual properties are %s algo=%s" % (got, f.get("algo"), want, names[int(w["kv"].get("comp", "0"))]), i))
        elif op == "r.it":
            if t[1] not in readers:
                continue
            es = readers[t[1]]
            kind = parse_kind(t[3:])
            c = Cursor(es, kind)
            if real == "null":
                # a NULL iterator must be equivalent to an always-failing one: legal only if nothing is at/after the start
                if c.pos < len(es):
                    fails.append(("C02", "NULL iterator although entries exist at/after the start", i))
                iters[t[2]] = None
            elif real == "ok":
                iters[t[2]] = c
            else:
                fails.append(("C02", "iterator creation ended in %s" % real, i)); break
        elif op == "r.next":
            if t[1] not in iters:
                continue
            c = iters[t[1]]
            exp = c.next() if c is not None else None
            if exp is None:
                if real != "fail":
                    fails.append(("C03" if True else "", "next returned %s, expected failure" % real[:80], i))
            else:
                want = "ent %s %s" % (hx(exp[0]), hx(exp[1]))
                if real != want:
                    fails.append((classify_iter_fail(c), "next returned %s, expected %s" % (real[:80], want[:80]), i))
        elif op == "r.seek":
            if t[1] not in iters:
                continue
            c = iters[t[1]]
            if c is None:
                continue
            if real != "ok":
                fails.append(("C03", "seek returned %s" % real, i))
            c.seek(unhx(t[2])); c.seeked = True
    return fails


def classify_iter_fail(c):
    if getattr(c, "seeked", False):
        return "C03"
    return "C01" if c.kind[0] == "iter" else "C02"


def parse_kind(a):
    if a[0] == "iter":
        return ("iter",)
    if a[0] == "range":
        return ("range", unhx(a[1]), unhx(a[2]))
    return (a[0], unhx(a[1]))


def varint(b, off):
    v = 0; sh = 0; n = 0
    while off + n < len(b) and n < 10:
        c = b[off + n]; v |= (c & 0x7f) << sh; sh += 7; n += 1
        if c < 128:
            return v, n
    return None, 0


def walk_layout(f, pre_len_in_file_excluded):
    """f = bytes after the foreign prefix.  Walk the frames up to the index offset in the trailer.
    Returns (nblocks, bytes_data_blocks, index_offset_absolute, bytes_index_block) or None"""
    pre = pre_len_in_file_excluded
    if len(f) < 512:
        return None
    io_abs = int.from_bytes(f[-512:-504], "little")
    io = io_abs - pre
    off = 0; nb = 0
    while off < io:
        ln, n = varint(f, off)
        if ln is None or off + n + 4 + ln > io:
            return None
        off += n + 4 + ln; nb += 1
    if off != io:
        return None
    ln, n = varint(f, io)
    if ln is None or io + n + 4 + ln != len(f) - 512:
        return None
    return nb, io, io_abs, n + 4 + ln


# ---------------------------------------------------------------------------------------------
# merger family (C04, C05): sources = real tables or a user-defined poisoning source

def tok(si, ei):
    return bytes([0x40 + si, ei & 0xff])


def gen_merger_case(rng, stats, focus="C04", force_write=False):
    heap_stress = rng.chance(1, 4)
    ns = rng.pick([7, 8, 9, 10, 12, 15]) if heap_stress else rng.pick([0, 1, 2, 2, 3, 3, 4, 6])
    universe = gen_keys(rng, rng.pick([12, 16, 24]) if heap_stress else rng.pick([1, 3, 6, 10, 16]), stats, long_ok=False)
    mode = rng.pick(["union", "union", "union", "lcp", "none", "dupsort", "fail", "union+dupsort", "lcp+dupsort"])
    with_dupsort = mode.endswith("+dupsort")      # a merge function AND a dupsort function (what mtbl_fileset passes through)
    if with_dupsort:
        mode = mode.split("+")[0]; stats.bump("merger_merge_and_dupsort")
    if heap_stress:
        stats.bump("merger_heap_stress")
    stats.bump("merger_mode_" + mode); stats.bump("merger_sources_%d" % ns)
    lines = ["reset"]
    srcs = []
    # value tokens carry a source tag; the tags are a random permutation of the source numbers, so that the dupsort order of the
    # values of one key is NOT the order in which the sources were added to the merger
    tag = list(range(ns))
    for a in range(ns - 1, 0, -1):
        b = rng.below(a + 1); tag[a], tag[b] = tag[b], tag[a]
    for si in range(ns):
        kind = "u" if rng.chance(1, 3) else "t"
        r = rng.below(5)
        if heap_stress:
            # many small sources whose first keys come in random order: every shape of the initial heap pushes
            start = rng.below(max(1, len(universe)))
            ks = universe[start:start + rng.pick([1, 1, 2, 3])]
        elif r == 0:
            ks = []
        elif r == 1:
            ks = list(universe)
        else:
            ks = [k for k in universe if rng.chance(1, 2)]
        if kind == "u" and ks and (rng.chance(1, 2) if mode in ("none", "dupsort") else rng.chance(1, 3)):
            # duplicate keys inside one user source (what a merger without a merge function, used as a source, delivers):
            # with a merge function the outer merger has to fold them too
            ks = sorted(ks + [rng.pick(ks) for _ in range(1 + rng.below(3))]); stats.bump("merger_src_with_duplicate_keys")
        es = []
        for ei, k in enumerate(ks):
            v = tok(tag[si], ei)
            if mode == "lcp":
                v = bytes(rng.pick([0x61, 0x61, 0x62]) for _ in range(rng.pick([0, 1, 2, 3, 5, 9])))
            if mode == "none":
                v = b"=="            # order among equal keys is unspecified without dupsort: give ties equal values
            es.append((k, v))
        if mode == "dupsort":
            es.sort()
        srcs.append((kind, es))
        stats.bump("merger_src_" + kind)
        if not es:
            stats.bump("merger_empty_source")
    allkeys = sorted(set(k for _, es in srcs for k, _ in es))
    failkey = None
    if mode == "fail":
        multi = [k for k in allkeys if sum(1 for _, es in srcs for kk, _ in es if kk == k) >= 2]
        failkey = rng.pick(multi) if multi and rng.chance(3, 4) else (rng.pick(allkeys) if allkeys else b"zz")
    marg = {"union": "merge=union", "lcp": "merge=lcp", "none": "merge=none", "dupsort": "merge=none dupsort=1", "fail": "merge=fail:%s" % hx(failkey or b"")}[mode]
    margs = marg + (" dupsort=1" if with_dupsort else "")
    # sometimes the last two (or more) sources are wrapped in a NESTED merger with the same configuration, added as one source
    nest = mode != "fail" and len(srcs) >= 2 and rng.chance(1, 3)
    inner = srcs[len(srcs) - rng.pick([1, 2, 2, 3, len(srcs)]):] if nest else []
    outer = srcs[:len(srcs) - len(inner)]
    if nest:
        stats.bump("merger_nested")
        inner_margs = margs
        if mode in ("union", "lcp") and rng.chance(1, 2):
            # the inner merger has NO merge function: it hands equal keys through one by one and the outer one folds them
            inner_margs = "merge=none" + (" dupsort=1" if rng.chance(1, 2) else ""); stats.bump("merger_nested_inner_nomerge")
        if not outer:
            stats.bump("merger_nested_only_source")
        lines.append("m.new 2 " + inner_margs)
        for kind, es in inner:
            lines.append("m.src 2 kind=%s bs=%d ri=%d %s" % (kind, rng.pick([16, 32, 64]), rng.pick([1, 2, 3]), " ".join("%s %s" % (hx(k), hx(v)) for k, v in es)))
    lines.append("m.new 1 " + margs)
    for kind, es in outer:
        lines.append("m.src 1 kind=%s bs=%d ri=%d %s" % (kind, rng.pick([16, 32, 64]), rng.pick([1, 2, 3]), " ".join("%s %s" % (hx(k), hx(v)) for k, v in es)))
    if nest:
        lines.append("m.src 1 kind=n sub=2")
    # drain
    total = sum(len(es) for _, es in srcs)
    lines.append("m.it 1 10 iter")
    for _ in range(total + 2):
        lines.append("m.next 10")
    if mode == "union" and not with_dupsort and not nest and srcs and all(kind == "t" for kind, _ in srcs) and rng.chance(2, 3):
        # the same tables through the mtbl_merge tool built from the tree, with a test DSO holding the same merge function
        lines.append("m.tool 1 c=%s b=%d%s" % (rng.pick(["none", "zlib", "snappy", "lz4", "zstd", "lz4hc"]), rng.pick([1024, 1024, 4096, 8192]),
                                               rng.pick(["", "", " t=0", " t=2"]))); stats.bump("merger_mtbl_merge_tool")
    if mode != "fail" and (rng.chance(1, 3) or force_write):
        # the same content through mtbl_source_write into a fresh table (bytes compared with the writer model)
        lines.append("m.write 1 bs=%d ri=%d" % (rng.pick([16, 32, 64, 200]), rng.pick([1, 2, 3]))); stats.bump("merger_source_write")
    iid = 11
    if mode in ("dupsort", "none") and allkeys:
        # no merge function: point lookups of keys that several sources hold, drained — every source entry for the key, in
        # dupsort order when one is set, whatever order the sources were added in
        multi = [k for k in allkeys if sum(1 for _, es in srcs for kk, _ in es if kk == k) >= 2]
        for k in multi[:3]:
            lines.append("m.it 1 %d %s" % (iid, kind_args(("get", k))))
            lines += ["m.next %d" % iid] * (sum(1 for _, es in srcs for kk, _ in es if kk == k) + 1)
            iid += 1; stats.bump("merger_get_of_key_held_by_several_sources")
    if focus == "C05" or rng.chance(1, 2):
        for _ in range(rng.pick([2, 4])):
            kind = gen_kind(rng, allkeys, which=1 + rng.below(3))
            lines.append("m.it 1 %d %s" % (iid, kind_args(kind)))
            for _ in range(rng.pick([2, 4, total + 1])):
                lines.append("m.next %d" % iid)
            iid += 1
        for _ in range(rng.pick([1, 2, 3])):
            kind = gen_kind(rng, allkeys)
            lines.append("m.it 1 %d %s" % (iid, kind_args(kind)))
            cur = Cursor([(k, v) for k, v, _ in merged_content(mode, [es for _, es in srcs])], kind)
            lines += history_ops(rng, "m", iid, cur, allkeys, rng.pick([4, 8, 12, 16]), stats)
            iid += 1
    content = [(k, v) for k, v, _ in merged_content(mode, [es for _, es in srcs])]
    if mode != "fail" and 2 <= len(content) <= 9 and (focus == "C05" and rng.chance(1, 3) or rng.chance(1, 10)):
        # small merged view: every (prelude, seek target) pair on it
        hi = allkeys[min(len(allkeys) - 1, max(1, (2 * len(allkeys)) // 3))] if allkeys else b""
        lines += systematic_histories(rng, "m", 1, iid, content, [("iter",), gen_kind(rng, allkeys, which=1 + rng.below(3)), ("range", b"", hi)], stats, budget=250)
    return lines


def merged_content(mode, srcs):
    """Spec: the merged view as a sorted entry list"""
    allents = [(k, v) for es in srcs for k, v in es]
    if mode in ("union", "fail"):
        out = {}
        for k, v in allents:
            out.setdefault(k, []).append(v)
        res = []
        for k in sorted(out):
            toks = sorted(t for v in out[k] for t in [v[i:i + 2] for i in range(0, len(v), 2)])
            res.append((k, b"".join(toks), len(out[k])))
        return res
    if mode == "lcp":
        out = {}
        for k, v in allents:
            out.setdefault(k, []).append(v)
        return [(k, functools.reduce(lcp_bytes, out[k]), len(out[k])) for k in sorted(out)]
    if mode == "dupsort":
        return [(k, v, 1) for k, v in sorted(allents)]
    return [(k, v, 1) for k, v in sorted(allents, key=lambda e: e[0])]


def oracle_merger(res):
    fails = []
    mergers, iters = {}, {}
    for i, r in enumerate(res):
        t = r["req"].split(" "); op = t[0]; real = r["real"]
        for s in r.get("side", []):
            if s.startswith("#!"):
                fails.append(("C04", "runtime check: " + s[2:], i))
        if real == "asan" or real.startswith("crash") or real == "abort":
            p = "C04"
            if op in ("m.next", "m.seek") and t[1] in iters and iters[t[1]] and (iters[t[1]].get("seeked") or iters[t[1]]["kind"][0] != "iter"):
                p = "C05"
            fails.append((p, "merger operation died: %s %s" % (real, r.get("stderr", "")[-300:]), i)); break
        if op == "reset":
            mergers, iters = {}, {}
        elif op == "m.new":
            kvs = dict(a.split("=", 1) for a in t[2:] if "=" in a)
            mg = kvs.get("merge", "none")
            mode = "union" if mg == "union" else "lcp" if mg == "lcp" else "fail" if mg.startswith("fail:") else "dupsort" if kvs.get("dupsort") == "1" else "none"
            mergers[t[1]] = {"mode": mode, "failkey": unhx(mg[5:]) if mode == "fail" else None, "srcs": []}
        elif op == "m.src":
            kvs = dict(a.split("=", 1) for a in t[2:] if "=" in a)
            if kvs.get("kind") == "n":
                sub = mergers[kvs["sub"]]
                mergers[t[1]]["srcs"].append([(k, v) for k, v, _ in merged_content(sub["mode"], sub["srcs"])])
                continue
            vals = [a for a in t[2:] if "=" not in a]
            mergers[t[1]]["srcs"].append([(unhx(vals[j]), unhx(vals[j + 1])) for j in range(0, len(vals), 2)])
        elif op == "m.tool":
            m = mergers[t[1]]
            content = merged_content("union", m["srcs"])
            want = "ents" + "".join(" %s %s" % (hx(k), hx(v)) for k, v, _ in content)
            if real != want and real != "tool skipped":
                fails.append(("C04", "output of src/mtbl_merge over the same tables: %s, the merged content is %s" % (real[:80], want[:80]), i))
        elif op == "m.write":
            m = mergers[t[1]]
            content = merged_content(m["mode"], m["srcs"])
            strictly = all(content[j][0] < content[j + 1][0] for j in range(len(content) - 1))
            if real.split(" ")[0] != ("ok" if strictly else "fail"):
                fails.append(("C04", "mtbl_source_write of a merger whose content %s returned %s" % ("has strictly increasing keys" if strictly else "repeats a key", real[:20]), i))
            elif strictly:
                lay = walk_layout(bytes.fromhex(real.split(" ")[1]) if len(real.split(" ")) > 1 and real.split(" ")[1] != "-" else b"", 0)
                ne = int.from_bytes(bytes.fromhex(real.split(" ")[1])[-512 + 24:-512 + 32], "little") if lay else -1
                if lay is None or ne != len(content):
                    fails.append(("C04", "file produced by mtbl_source_write: %s" % ("not a well-formed table" if lay is None else "holds %d entries, merged content has %d" % (ne, len(content))), i))
        elif op == "m.it":
            m = mergers[t[1]]
            content = merged_content(m["mode"], m["srcs"])
            kind = parse_kind(t[3:])
            c = Cursor([(k, v) for k, v, _ in content], kind)
            mult = {k: n for k, v, n in content}
            if real == "null":
                if kind[0] == "iter" or c.pos < len(content) and in_bound(kind, content[c.pos][0]):
                    fails.append(("C05" if kind[0] != "iter" else "C04", "NULL merger iterator although matching entries exist", i))
                iters[t[2]] = None
            else:
                iters[t[2]] = {"c": c, "kind": kind, "m": m, "mult": mult, "dead": False, "seeked": False}
        elif op == "m.next":
            it = iters.get(t[1], "missing")
            if it == "missing":
                continue
            prop = "C04"
            if it is None:
                if real != "fail":
                    fails.append(("C05", "next on a NULL iterator returned " + real[:60], i))
                continue
            also = None
            if it["seeked"] or it["kind"][0] != "iter":
                prop = "C05"
                if not it["seeked"]:
                    also = "C04"      # what a merger emits for a key (fold / every source entry in dupsort order), asked for by a lookup
            if it["dead"]:
                continue
            exp = it["c"].next()
            m = it["m"]
            if exp is not None and m["mode"] == "fail" and exp[0] == m["failkey"] and it["mult"].get(exp[0], 1) >= 2:
                if real != "fail":
                    fails.append(("C04", "merge callback failed while assembling %s but next returned %s" % (hx(exp[0]), real[:60]), i))
                it["dead"] = True      # state after a reported failure is not specified further
                continue
            if exp is None:
                if real != "fail":
                    fails.append((prop, "next returned %s, expected failure" % real[:80], i))
            else:
                want = "ent %s %s" % (hx(exp[0]), hx(exp[1]))
                if real != want:
                    fails.append((prop, "next returned %s, expected %s" % (real[:80], want[:80]), i))
                    if also and real.startswith("ent ") and real.split(" ")[1] == hx(exp[0]):
                        fails.append((also, "lookup (%s) on the merger, entry for key %s: next returned %s, the merged content has %s" % (it["kind"][0], hx(exp[0])[:40], real[:80], want[:80]), i))
        elif op == "m.seek":
            it = iters.get(t[1], "missing")
            if it in ("missing", None):
                continue
            if it["dead"]:
                continue
            if real != "ok":
                fails.append(("C05", "seek returned " + real, i))
            it["c"].seek(unhx(t[2])); it["seeked"] = True
    return fails


# ---------------------------------------------------------------------------------------------
# sorter family (C06)

def gen_sorter_case(rng, stats, pool=None):
    universe = gen_keys(rng, rng.pick([1, 2, 4, 8, 14]), stats, long_ok=False)
    nadds = rng.pick([0, 1, 3, 8, 16, 30, 50])
    shape = rng.pick(["random", "sorted", "reversed", "allequal", "distinct"])
    stats.bump("sorter_shape_" + shape)
    keys = [rng.pick(universe) for _ in range(nadds)] if universe else []
    if shape == "sorted":
        keys.sort()
    elif shape == "reversed":
        keys.sort(reverse=True)
    elif shape == "allequal" and keys:
        keys = [keys[0]] * len(keys)
    elif shape == "distinct":
        keys = list(dict.fromkeys(keys))
        if rng.chance(1, 2):
            keys.reverse()
    merge = "none" if shape == "distinct" and rng.chance(1, 2) else rng.pick(["union", "union", "lcp"])
    stats.bump("sorter_merge_" + merge)
    mem = rng.pick([1, 24, 40, 64, 100, 200, 400, 1000, 100000])
    pool = rng.pick([None, None, 0, 1, 2, 4, 8]) if pool is None else pool
    stats.bump("sorter_pool_%s" % pool); stats.bump("sorter_mem_%d" % mem)
    tdir = rng.pick(["plain", "plain", "symlink", "late"])      # the configured temp dir: existing / a symlink to one / created after set_temp_dir
    stats.bump("sorter_tmpdir_" + tdir)
    lines = ["reset", "@i sys.info",
             "s.new 1 mem=%d minmem=0 merge=%s eo=$i.eo pid=$i.pid tdir=%s%s" % (mem, merge, tdir, "" if pool is None else " pool=%d" % pool)]
    # the configured directory disappears after set-up, at some point before a spill: the spill has nowhere to go, the library
    # stops, and nothing may be created anywhere else (unpooled sorters only: a pooled chunk job would die on a worker thread)
    vanish_at = rng.below(len(keys) + 1) if (pool in (None, 0) and tdir != "late" and rng.chance(1, 6)) else None
    if vanish_at is not None:
        stats.bump("sorter_tmpdir_vanishes_before_a_spill")
    for ai, k in enumerate(keys):
        if vanish_at == ai:
            lines.append("s.vanish 1")
        if merge == "lcp":
            # values of different lengths with common prefixes: the fold of two values is SHORTER than either operand
            v = bytes(rng.pick([0x61, 0x61, 0x62]) for _ in range(rng.pick([0, 1, 2, 3, 5, 9])))
        else:
            v = bytes([0x30 + (ai >> 8), ai & 0xff])
        lines.append("s.add 1 %s %s" % (hx(k), hx(v)))
    if vanish_at == len(keys):
        lines.append("s.vanish 1")
    via_write = rng.chance(1, 4)
    if via_write:
        lines += ["w.new 5 comp=0 bs=64 ri=2 minbs=16 pre=-", "s.write 1 5", "s.add 1 61 3030", "s.write 1 5", "w.fin 5", "r.openw 6 5", "r.it 6 20 iter"]
        lines += ["r.next 20"] * (len(set(keys)) + 1)
    else:
        lines.append("s.iter 1 20")
        for _ in range(len(set(keys)) + 2):
            lines.append("m.next 20")
        lines.append("s.add 1 61 3030")          # refused once iteration has begun
        if rng.chance(1, 3):
            lines += ["m.seek 20 %s" % hx(gen_query_key(rng, sorted(set(keys)))), "m.next 20", "m.next 20"]
    lines.append("s.spills 1")
    return lines


def lcp_bytes(a, b):
    n = 0
    while n < len(a) and n < len(b) and a[n] == b[n]:
        n += 1
    return a[:n]


def oracle_sorter(res):
    fails = []
    S = None
    for i, r in enumerate(res):
        t = r["req"].split(" "); op = t[0]; real = r["real"]
        if op == "s.vanish" and S is not None:
            S["gone"] = True; continue
        if S is not None and S.get("gone") and not S["iterating"] and op in ("s.add", "s.iter", "s.write"):
            # does this call spill?  then the process must stop here (no directory), and that is the end of the script
            spill = (S["n"] > 0) if op != "s.add" else (S["bytes"] + S["eo"] + len(unhx(t[2])) + len(unhx(t[3])) + 8 * (S["n"] + 1) >= S["limit"])
            if spill:
                if real != "abort":
                    fails.append(("C06", "the configured temporary directory no longer exists and %s had to spill: the call returned %s instead of stopping (a chunk file was created somewhere else, or the data was dropped)" % (op, real), i))
                break
        if real == "asan" or real.startswith("crash") or real == "abort":
            fails.append(("C06", "sorter operation %s died: %s %s" % (op, real, r.get("stderr", "")[-300:]), i)); break
        if op == "s.new":
            kvs = dict(a.split("=", 1) for a in t[2:] if "=" in a)
            S = {"kv": kvs, "adds": [], "iterating": False, "bytes": 0, "n": 0, "spills": 0, "iters": {},
                 "limit": max(int(kvs.get("mem", "0")), int(kvs.get("minmem", "0"))), "eo": int(kvs.get("eo", "8"))}
        elif op == "s.add" and S is not None:
            if S["iterating"]:
                if real != "fail":
                    fails.append(("C06", "add after iteration began returned " + real, i))
                continue
            if real != "ok":
                fails.append(("C06", "add returned " + real, i)); continue
            k, v = unhx(t[2]), unhx(t[3])
            S["adds"].append((k, v)); S["bytes"] += S["eo"] + len(k) + len(v); S["n"] += 1
            if S["bytes"] + 8 * S["n"] >= S["limit"]:
                S["spills"] += 1; S["bytes"] = 0; S["n"] = 0
        elif op in ("s.iter", "s.write") and S is not None:
            if S["iterating"]:
                if op == "s.write" and real != "fail":
                    fails.append(("C06", "write after iteration began returned " + real, i))
                continue
            if S["n"] > 0:
                S["spills"] += 1; S["n"] = 0; S["bytes"] = 0
            S["iterating"] = True
            want = {}
            for k, v in S["adds"]:
                want.setdefault(k, []).append(v)
            if S["kv"].get("merge") == "lcp":
                content = [(k, functools.reduce(lcp_bytes, want[k])) for k in sorted(want)]
            else:
                content = [(k, b"".join(sorted(want[k]))) for k in sorted(want)]
            S["content"] = content
            if op == "s.iter":
                if real != "ok":
                    fails.append(("C06", "sorter_iter returned " + real, i)); continue
                S["iters"][t[2]] = Cursor(content, ("iter",))
            elif real != "ok":
                fails.append(("C06", "sorter_write returned " + real, i))
        elif op == "m.next" and S is not None and t[1] in S["iters"]:
            exp = S["iters"][t[1]].next()
            want = "fail" if exp is None else "ent %s %s" % (hx(exp[0]), hx(exp[1]))
            if real != want:
                fails.append(("C06", "sorter output: next returned %s, expected %s" % (real[:80], want[:80]), i))
        elif op == "m.seek" and S is not None and t[1] in S["iters"]:
            S["iters"][t[1]].seek(unhx(t[2]))
        elif op == "r.it" and S is not None and "content" in S:
            S["iters"]["r" + t[2]] = Cursor(S["content"], ("iter",))
        elif op == "r.next" and S is not None and ("r" + t[1]) in S["iters"]:
            exp = S["iters"]["r" + t[1]].next()
            want = "fail" if exp is None else "ent %s %s" % (hx(exp[0]), hx(exp[1]))
            if real != want:
                fails.append(("C06", "file written by sorter_write: next returned %s, expected %s" % (real[:80], want[:80]), i))
        elif op == "s.spills" and S is not None:
            want = "spills %d tmpl=DIR/.mtbl.PID.XXXXXX leftover=0" % S["spills"]
            if real != want:
                fails.append(("C06", "spill accounting: %s, expected %s" % (real, want), i))
    return fails


# ---------------------------------------------------------------------------------------------
# fileset family (C07)

def gen_fileset_case(rng, stats, nops=None):
    ntab = rng.pick([2, 3, 4, 5])
    nout = rng.pick([0, 1, 1, 2])          # tables in another directory than the setfile's, listed by absolute path
    names = ["t%d.mtbl" % i for i in range(ntab)] + ["junk.txt", "zz-missing.mtbl"] + ["@o%d.mtbl" % i for i in range(nout)]
    lines = ["reset", "fs.begin"]
    universe = gen_keys(rng, 8, stats, long_ok=False)
    for t in range(ntab):
        ks = sorted(k for k in universe if rng.chance(1, 2))
        lines.append("fs.table %d %s" % (t, " ".join("%s %s" % (hx(k), hx(bytes([0x50 + t, i]))) for i, k in enumerate(ks))))
        lines.append("fs.file t%d.mtbl %d" % (t, t))
    lines.append("fs.file junk.txt nt")
    for i in range(nout):
        lines.append("fs.file @o%d.mtbl %d" % (i, rng.below(ntab))); stats.bump("fs_table_in_other_dir")
    def setline():
        pick = [n for n in names if rng.chance(1, 2)]
        rng_order = list(pick)
        for a in range(len(rng_order) - 1, 0, -1):         # any order: the setfile is a set
            b = rng.below(a + 1); rng_order[a], rng_order[b] = rng_order[b], rng_order[a]
        # listed by absolute path sometimes
        return " ".join(("/" + n if rng.chance(1, 4) and not n.startswith("@") else n) for n in rng_order)
    lines.append("fs.set " + setline())
    def opts():
        iv = rng.pick(["0", "3", "10", "never"])
        o = "interval=" + iv
        if rng.chance(1, 4):
            o += " namef=" + rng.pick(["t1", "t", "mtbl", "t2"])
        if rng.chance(1, 5):
            o += " minent=%d" % rng.pick([1, 2, 4])
        stats.bump("fs_interval_" + iv)
        return o
    lines.append("fs.init 0 " + opts())
    handles = [0]; next_h = 1
    iters = {}      # iid -> hid
    iter_start = {}
    next_i = 100
    n = nops if nops is not None else rng.pick([6, 10, 15, 22])
    if rng.chance(1, 4):
        # a chain of setfile generations, each actually loaded (no iterator open, reload_now), then observed through every
        # handle: tables enter, stay for several generations, and leave again
        stats.bump("fs_generation_chain")
        member = set(n0 for n0 in names if rng.chance(1, 2))
        for g in range(rng.pick([3, 4, 6])):
            for nm in list(names):
                if rng.chance(1, 3):
                    member ^= {nm}
            order = sorted(member)
            for a in range(len(order) - 1, 0, -1):
                b = rng.below(a + 1); order[a], order[b] = order[b], order[a]
            lines.append("fs.set " + " ".join(order))
            lines.append("fs.now %d" % rng.pick(handles))
            for h in handles:
                lines.append("fs.it %d %d iter" % (h, next_i))
                lines += ["fs.next %d" % next_i] * rng.pick([2, 9])
                lines.append("fs.close %d" % next_i); next_i += 1
            if len(handles) < 3 and rng.chance(1, 3):
                lines.append("fs.dup %d %d %s" % (rng.pick(handles), next_h, opts())); handles.append(next_h); next_h += 1
    for _ in range(n):
        r = rng.below(100)
        if r < 12:
            lines.append("fs.set " + setline()); stats.bump("fs_op_set")
        elif r < 17:
            nm = rng.pick(names[:ntab]); lines.append("fs.rm " + nm); stats.bump("fs_op_rm")
        elif r < 22:
            t = rng.below(ntab); lines.append("fs.file t%d.mtbl %d" % (t, t)); stats.bump("fs_op_create")
        elif r < 32:
            lines.append("fs.tick %d" % rng.pick([1, 2, 4, 11, 100])); stats.bump("fs_op_tick")
        elif r < 42:
            lines.append("fs.reload %d" % rng.pick(handles)); stats.bump("fs_op_reload")
        elif r < 54:
            lines.append("fs.now %d" % rng.pick(handles)); stats.bump("fs_op_now")
        elif r < 72 and len(iters) < 6:
            h = rng.pick(handles)
            kind = gen_kind(rng, universe, which=rng.pick([0, 0, 1, 2, 3]))
            lines.append("fs.it %d %d %s" % (h, next_i, kind_args(kind))); iters[next_i] = h
            iter_start[next_i] = b"" if kind[0] == "iter" else kind[1]
            next_i += 1; stats.bump("fs_op_open")
        elif r < 84 and iters:
            i = rng.pick(sorted(iters))
            if rng.chance(1, 4):
                k = gen_query_key(rng, universe)
                if k < iter_start.get(i, b""):
                    k = iter_start[i]           # the property requires seeks at or after the start of the iterator's range
                lines.append("fs.seek %d %s" % (i, hx(k)))
            lines.append("fs.next %d" % i); stats.bump("fs_op_next")
        elif r < 92 and iters:
            i = rng.pick(sorted(iters)); lines.append("fs.close %d" % i); del iters[i]; stats.bump("fs_op_close")
        elif r < 97 and len(handles) < 3:
            lines.append("fs.dup %d %d %s" % (rng.pick(handles), next_h, opts())); handles.append(next_h); next_h += 1; stats.bump("fs_op_dup")
        elif len(handles) > 1:
            h = rng.pick(handles)
            if h not in iters.values():
                lines.append("fs.destroy %d" % h); handles.remove(h); stats.bump("fs_op_destroy")
    # drain one fresh iterator per live handle, then tear down in a legal order
    for h in handles:
        lines.append("fs.it %d %d iter" % (h, next_i)); iters[next_i] = h
        lines += ["fs.next %d" % next_i] * 6
        next_i += 1
    for i in sorted(iters):
        lines.append("fs.close %d" % i)
    for h in handles:
        lines.append("fs.destroy %d" % h)
    lines.append("fs.end")
    return lines


class FsSpec:
    """The property's reload rules as a small python machine (independent of the Lean model): when a reload must
    have happened, what view it produces, what a new iterator therefore shows."""
    def __init__(self):
        self.files = {}; self.tables = {}; self.setlines = []; self.stamp = 1; self.sec = 1000
        self.view = []; self.seen_stamp = 0; self.pending = True; self.last = 0; self.n_open = 0
        self.handles = {}
    def do_reload(self):
        if self.seen_stamp != self.stamp:
            self.seen_stamp = self.stamp
            self.view = sorted((n, self.files[n]) for n in self.setlines if n in self.files)
        self.pending = False; self.last = self.sec
    def source_op(self, h):
        iv = self.handles[h]["interval"]
        if not self.pending and iv is None:
            return
        if self.n_open > 0:
            return
        if self.pending or self.sec - self.last > iv:
            self.do_reload()
    def reload_now(self, h):
        if self.n_open > 0:
            self.pending = True
        else:
            self.do_reload()
    def content(self, h):
        H = self.handles[h]
        out = {}
        for n, t in self.view:
            if t == "nt":
                continue
            if H["namef"] and H["namef"] not in n:
                continue
            if H["minent"] is not None and len(self.tables.get(t, [])) < H["minent"]:
                continue
            for k, v in self.tables.get(t, []):
                out.setdefault(k, []).append(v)
        return [(k, b"".join(sorted(out[k]))) for k in sorted(out)]


def parse_fs_opts(args):
    kvs = dict(a.split("=", 1) for a in args if "=" in a)
    iv = kvs.get("interval", "60")
    return {"interval": None if iv == "never" else int(iv), "namef": None if kvs.get("namef", "-") == "-" else kvs["namef"],
            "minent": int(kvs["minent"]) if "minent" in kvs else None}


def oracle_fileset(res):
    fails = []
    S = FsSpec(); iters = {}
    for i, r in enumerate(res):
        t = r["req"].split(" "); op = t[0]; real = r["real"]
        if real == "asan" or real.startswith("crash") or real == "abort":
            fails.append(("C07", "fileset operation %s ended in %s (use of a freed reader/merger?) %s" % (op, real, r.get("stderr", "")[-400:]), i)); break
        if op == "fs.begin":
            S = FsSpec(); iters = {}
        elif op == "fs.table":
            vals = t[2:]
            S.tables[int(t[1])] = [(unhx(vals[j]), unhx(vals[j + 1])) for j in range(0, len(vals), 2)]
        elif op == "fs.file":
            S.files[t[1]] = "nt" if t[2] == "nt" else int(t[2])
        elif op == "fs.rm":
            S.files.pop(t[1], None)
        elif op == "fs.set":
            S.setlines = [a.lstrip("/") for a in t[1:]]; S.stamp += 1
        elif op == "fs.tick":
            S.sec += int(t[1])
        elif op == "fs.init":
            S.handles[t[1]] = parse_fs_opts(t[2:])
        elif op == "fs.dup":
            S.handles[t[2]] = parse_fs_opts(t[3:])
        elif op == "fs.reload":
            S.source_op(t[1])
        elif op == "fs.now":
            S.reload_now(t[1])
        elif op == "fs.it":
            S.source_op(t[1])
            kind = parse_kind(t[3:])
            iters[t[2]] = {"c": Cursor(S.content(t[1]), kind), "h": t[1], "inner_null": False}
            S.n_open += 1
            if real != "ok":
                fails.append(("C07", "iterator creation returned " + real, i))
        elif op == "fs.next" and t[1] in iters:
            exp = iters[t[1]]["c"].next()
            want = "fail" if exp is None else "ent %s %s" % (hx(exp[0]), hx(exp[1]))
            if real != want:
                fails.append(("C07", "fileset iterator returned %s, the view of the last reload gives %s" % (real[:70], want[:70]), i))
        elif op == "fs.seek" and t[1] in iters:
            c = iters[t[1]]["c"]
            # a bounded lookup that matched nothing is a NULL inner iterator: seek fails and it stays empty
            if real == "ok":
                c.seek(unhx(t[2]))
            else:
                c.stuck = True
        elif op == "fs.close" and t[1] in iters:
            h = iters[t[1]]["h"]; del iters[t[1]]
            S.n_open -= 1
            S.source_op(h)
    return fails


# ---------------------------------------------------------------------------------------------
# independent-encoder family (C11): random LEGAL encoding choices for the same logical content

def lcp_len(a, b):
    n = 0
    while n < len(a) and n < len(b) and a[n] == b[n]:
        n += 1
    return n


def gen_efile_spec(rng, stats):
    keys = gen_keys(rng, rng.pick([0, 1, 2, 4, 7, 12, 20]), stats, long_ok=rng.chance(1, 5))
    ents = [(k, gen_val(rng, stats, 40)) for k in keys]
    ents = [(k, v if len(v) < 3000 else v[:3000]) for k, v in ents]
    ver = rng.pick([1, 2, 2])
    comp = rng.pick([0, 0, 0, 1, 2, 3, 4, 5])
    thr = rng.pick([4294967295, 4294967295, 4294967295, 8, 40, 200])
    pre = bytes(rng.below(256) for _ in range(rng.pick([0, 0, 3, 100, 513]))) if rng.chance(1, 3) else b""
    # split into non-empty blocks
    blocks = []
    i = 0
    while i < len(ents):
        n = rng.pick([1, 1, 2, 3, 5, 9])
        blocks.append(ents[i:i + n]); i += n
    def choose_block(es):
        n = len(es)
        mode = rng.pick(["every", "one", "random", "writer"])
        if mode == "every":
            rs = list(range(max(n, 1)))
        elif mode == "one":
            rs = [0]
        elif mode == "writer":
            iv = rng.pick([1, 2, 3, 16]); rs = list(range(0, max(n, 1), iv))
        else:
            rs = sorted(set([0] + [j for j in range(1, n) if rng.chance(1, 3)]))
        items = []
        for j, (k, v) in enumerate(es):
            if j == 0 or j in rs:
                sh = 0
            else:
                m = lcp_len(es[j - 1][0], k)
                sh = rng.pick([m, m, m, rng.below(m + 1), 0])
            items.append((sh, k, v))
        stats.bump("enc_restarts_" + mode)
        return rs, items
    eblocks = [choose_block(b) for b in blocks]
    # separators: last_j <= sep < first_{j+1}; last block: sep >= last key
    seps = []
    for j, b in enumerate(blocks):
        last = b[-1][0]
        if j + 1 < len(blocks):
            nxt = blocks[j + 1][0][0]
            cands = [last]
            if last + b"\x00" < nxt:
                cands.append(last + b"\x00")
            m = lcp_len(last, nxt)
            if m < len(last) and m < len(nxt) and last[m] + 1 < nxt[m]:
                cands.append(last[:m] + bytes([last[m] + 1]))
            if len(nxt) > 1 and last < nxt[:-1]:
                cands.append(nxt[:-1])
            seps.append(rng.pick(cands))
        else:
            seps.append(rng.pick([last, last + b"\xff", last + b"\x00\x01"]))
        stats.bump("enc_sep_eq_last" if seps[-1] == last else "enc_sep_other")
    nb = len(blocks)
    idx_rs = sorted(set([0] + [j for j in range(1, nb) if rng.chance(1, 3)])) if nb else [0]
    idx_sh = []
    for j in range(nb):
        if j == 0 or j in idx_rs:
            idx_sh.append(0)
        else:
            m = lcp_len(seps[j - 1], seps[j]); idx_sh.append(rng.pick([m, m, rng.below(m + 1), 0]))
    def blk(rs, items):
        return "rs:" + ",".join(map(str, rs)) + "".join("|%d,%s,%s" % (sh, hx(k), hx(v)) for sh, k, v in items)
    spec = "ver=%d comp=%d thr=%d bsf=%d pre=%s idxsh=%s idxrs=%s seps=%s blocks=%s" % (
        ver, comp, thr, rng.pick([1024, 8192, 0, 77]), hx(pre), ",".join(map(str, idx_sh)) or "-", ",".join(map(str, idx_rs)),
        ",".join(hx(s) for s in seps), ";".join(blk(rs, items) for rs, items in eblocks))
    stats.bump("enc_ver_%d" % ver); stats.bump("enc_comp_%d" % comp); stats.bump("enc_thr_%s" % ("real" if thr > 1000 else "small")); stats.bump("enc_blocks_%d" % min(nb, 5))
    return spec, ents, comp, thr


def gen_enc_script(rng, stats, spec, ents, comp, thr, ctab_lines):
    keys = [k for k, _ in ents]
    lines = ["reset"] + ctab_lines + ["enc.legal " + spec, "@f enc.file 7 " + spec, "blob 7 $f",
             "r.openb 2 7 verify=%d thr=%d" % (rng.below(2), thr), "r.it 2 10 iter"]
    lines += ["r.next 10"] * (len(keys) + 2)
    iid = 11
    for _ in range(rng.pick([2, 4])):
        kind = gen_kind(rng, keys, which=1 + rng.below(3))
        lines.append("r.it 2 %d %s" % (iid, kind_args(kind)))
        lines += ["r.next %d" % iid] * rng.pick([2, 3, len(keys) + 1])
        iid += 1
    for _ in range(rng.pick([1, 2, 3])):
        kind = gen_kind(rng, keys)
        lines.append("r.it 2 %d %s" % (iid, kind_args(kind)))
        cur = Cursor([(k, b"") for k in keys], kind)
        lines += history_ops(rng, "r", iid, cur, keys, rng.pick([4, 8, 12]), stats)
        iid += 1
    if len(keys) <= 8 and rng.chance(1, 2):
        # small foreign-encoded table: every (prelude, seek target) pair, separators included among the targets
        hi = keys[min(len(keys) - 1, max(1, (2 * len(keys)) // 3))] if keys else b""
        lines += systematic_histories(rng, "r", 2, iid, ents, [("iter",), gen_kind(rng, keys, which=1 + rng.below(3)), ("range", b"", hi)], stats, budget=300)
    return lines


def oracle_enc(res, ents):
    """the real reader must return exactly the encoded entries for iteration, lookups and seek histories"""
    fails = []
    iters = {}
    for i, r in enumerate(res):
        t = r["req"].split(" "); op = t[0]; real = r["real"]
        if real == "asan" or real.startswith("crash") or (real == "abort" and op != "r.openb"):
            fails.append(("C11", "reader died on a well-formed file: %s %s" % (real, r.get("stderr", "")[-300:]), i)); break
        if op == "enc.legal" and real != "legal":
            fails.append(("gen", "generator produced an illegal encoding", i)); break
        if op == "r.openb":
            if not real.startswith("ok "):
                fails.append(("C11", "well-formed file does not open: " + real, i)); break
        elif op == "r.it":
            c = Cursor(ents, parse_kind(t[3:]))
            if real == "null":
                if c.pos < len(ents):
                    fails.append(("C11", "NULL iterator although entries exist at/after the start", i))
                iters[t[2]] = None
            else:
                iters[t[2]] = c
        elif op == "r.next" and t[1] in iters:
            c = iters[t[1]]
            exp = c.next() if c is not None else None
            want = "fail" if exp is None else "ent %s %s" % (hx(exp[0]), hx(exp[1]))
            if real != want:
                fails.append(("C11", "next returned %s, the encoded content gives %s" % (real[:70], want[:70]), i))
        elif op == "r.seek" and t[1] in iters and iters[t[1]] is not None:
            if real != "ok":
                fails.append(("C11", "seek returned " + real, i))
            iters[t[1]].seek(unhx(t[2]))
    return fails
