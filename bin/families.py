"""Case generators (op scripts) and property oracles (the Spec layer evaluated on what the real code
returned) for the correspondence families.  Every random choice comes from a vlib.Rng."""
import collections
from vlib import Rng, hx, unhx

ALPHA = [0x00, 0x01, 0x7f, 0x80, 0xfe, 0xff, ord('a'), ord('b')]


class Stats(collections.Counter):
    def bump(self, k, n=1):
        self[k] += n


def gen_keys(rng, n, stats, long_ok=True):
    """prefix-tree shaped keys: long shared prefixes, proper prefixes, one-byte extensions, neighbours"""
    pool = [b""]
    keys = set()
    if rng.chance(1, 2):
        keys.add(b"")
    tries = 0
    while len(keys) < n and tries < 10 * n + 10:
        tries += 1
        base = rng.pick(pool)
        r = rng.below(20)
        if r < 12:
            k = base + bytes(rng.pick(ALPHA) for _ in range(1 + rng.below(3)))
        elif r < 15:
            k = base + bytes([rng.below(256)])
        elif r < 17 and base:
            # neighbour: increment / decrement last byte
            b = base[-1]
            k = base[:-1] + bytes([(b + 1) % 256 if rng.chance(1, 2) else (b - 1) % 256])
        elif r < 18 and long_ok:
            # lengths straddling 127/128 (two-byte varints)
            k = base + bytes([rng.pick(ALPHA)]) * (120 + rng.below(16))
        elif r < 19 and long_ok and rng.chance(1, 6):
            k = base + bytes([rng.pick(ALPHA)]) * (16380 + rng.below(8))
        else:
            k = bytes(rng.below(256) for _ in range(rng.below(6)))
        if len(k) > 17000:
            continue
        keys.add(k)
        if len(pool) < 64:
            pool.append(k)
    ks = sorted(keys)
    for k in ks:
        stats.bump("keylen<8" if len(k) < 8 else "keylen<128" if len(k) < 128 else "keylen<16384" if len(k) < 16384 else "keylen>=16384")
        if any(b >= 0x80 for b in k):
            stats.bump("key_has_byte>=0x80")
    if b"" in keys:
        stats.bump("tables_with_empty_key")
    return ks


def gen_val(rng, stats, bs):
    r = rng.below(16)
    if r < 4:
        stats.bump("val_empty"); return b""
    if r < 11:
        return bytes(rng.below(256) for _ in range(1 + rng.below(6)))
    if r < 13:
        return bytes([rng.below(256)]) * (120 + rng.below(16))
    if r < 14:
        stats.bump("val_gt_block"); return bytes(rng.below(256) for _ in range(bs + rng.below(50)))
    if r < 15 and rng.chance(1, 8):
        stats.bump("val_16k"); return bytes([rng.below(256)]) * (16380 + rng.below(8))
    return bytes(rng.below(256) for _ in range(rng.below(40)))


LEVELS = {1: ["d"], 2: ["d", "-5", "0", "1", "6", "9", "30"], 3: ["d"], 4: ["d", "-3", "0", "1", "9", "12", "40"],
          5: ["d", "-99999999", "-7", "0", "1", "3", "19", "22", "1000"], 0: ["d"]}


def gen_wcfg(rng, stats, comp=None, small=True):
    comp = rng.below(6) if comp is None else comp
    level = rng.pick(LEVELS[comp])
    if small:
        minbs = 16
        bs = rng.pick([0, 16, 24, 32, 48, 64, 100, 200, 400, 1024, 5000])
    else:
        minbs = None
        bs = rng.pick([0, 512, 1024, 1500, 4096, 8192])
    ri = rng.pick([1, 1, 2, 2, 3, 4, 5, 8, 16, 20])
    pre = bytes(rng.below(256) for _ in range(rng.pick([0, 0, 1, 7, 100, 511, 512, 700]))) if rng.chance(1, 3) else b""
    stats.bump("comp=%d" % comp); stats.bump("level=" + ("default" if level == "d" else "explicit"))
    if pre:
        stats.bump("foreign_prefix")
    a = "comp=%d level=%s bs=%d ri=%d pre=%s" % (comp, level, bs, ri, hx(pre))
    if minbs is not None:
        a += " minbs=%d" % minbs
    return a, comp, bs, ri


# ---------------------------------------------------------------------------------------------
# Spec layer in python: cursor over a sorted entry list

def in_bound(kind, key):
    k = kind[0]
    if k == "iter":
        return True
    if k == "get":
        return key == kind[1]
    if k == "pfx":
        return key.startswith(kind[1])
    if k == "range":
        return key <= kind[2]
    raise ValueError(k)


def lower_bound(entries, k):
    i = 0
    while i < len(entries) and entries[i][0] < k:
        i += 1
    return i


class Cursor:
    """Spec cursor: entries sorted by key (duplicates allowed); kind = ('iter',)|('get',k)|('pfx',p)|('range',k0,k1)"""
    def __init__(self, entries, kind):
        self.es = entries; self.kind = kind
        start = b"" if kind[0] == "iter" else kind[1]
        self.start = start
        self.pos = lower_bound(entries, start); self.stuck = False
    def next(self):
        if self.stuck:
            return None
        if self.pos < len(self.es) and in_bound(self.kind, self.es[self.pos][0]):
            e = self.es[self.pos]; self.pos += 1; return e
        self.stuck = True
        return None
    def seek(self, k):
        self.pos = lower_bound(self.es, k); self.stuck = False


def kind_args(kind):
    if kind[0] == "iter":
        return "iter"
    if kind[0] == "range":
        return "range %s %s" % (hx(kind[1]), hx(kind[2]))
    return "%s %s" % (kind[0], hx(kind[1]))


def gen_query_key(rng, keys, seps=()):
    """structured query: stored key, neighbour, proper prefix, one-byte extension, separator, random"""
    r = rng.below(10)
    if keys and r < 6:
        k = rng.pick(keys)
        m = rng.below(6)
        if m == 0:
            return k
        if m == 1:
            return k + bytes([rng.pick(ALPHA)])
        if m == 2 and k:
            return k[:rng.below(len(k))]
        if m == 3 and k:
            return k[:-1] + bytes([(k[-1] + 1) % 256])
        if m == 4 and k:
            return k[:-1] + bytes([(k[-1] - 1) % 256]) + (b"\xff" if rng.chance(1, 2) else b"")
        return k + b"\x00"
    if seps and r < 8:
        k = rng.pick(seps)
        m = rng.below(3)
        return k if m == 0 else k + b"\x00" if m == 1 else (k[:-1] if k else k)
    return bytes(rng.pick(ALPHA) for _ in range(rng.below(4)))


def gen_kind(rng, keys, which=None):
    which = rng.below(4) if which is None else which
    if which == 0:
        return ("iter",)
    a = gen_query_key(rng, keys)
    if which == 1:
        return ("get", a)
    if which == 2:
        if a and rng.chance(1, 2):
            a = a[:rng.below(len(a) + 1)]
        return ("pfx", a)
    b = gen_query_key(rng, keys)
    if rng.chance(3, 4) and a > b:
        a, b = b, a
    return ("range", a, b)


def history_ops(rng, prefix, iid, cursor, keys, nops, stats, seps=()):
    """random next/seek history on iterator `iid`; seeks respect the property's 'k at or after the start of the range'"""
    lines = []
    last = None
    for _ in range(nops):
        r = rng.below(10)
        if r < 4:
            k = gen_query_key(rng, keys, seps)
            m = rng.below(8)
            if m == 0 and last is not None:
                k = last; stats.bump("seek_to_key_just_returned")
            if k < cursor.start:
                k = cursor.start
            lines.append("%s.seek %d %s" % (prefix, iid, hx(k)))
            stats.bump("op_seek")
        else:
            lines.append("%s.next %d" % (prefix, iid))
            stats.bump("op_next")
    return lines


# ---------------------------------------------------------------------------------------------
# table family: writer + reader + iterators   (C01 C02 C03 C08 C09 C10)

def gen_table_case(rng, stats, mode="mixed", comp=None, small=True, nkeys=None, pool=None):
    """returns script lines.  mode: 'sorted' (C01), 'unsorted' (C08), 'mixed'"""
    cfg, comp, bs, ri = gen_wcfg(rng, stats, comp=comp, small=small)
    if pool is not None:
        cfg += " pool=%d" % pool
    n = nkeys if nkeys is not None else rng.pick([0, 1, 2, 3, 5, 8, 12, 20, 30])
    keys = gen_keys(rng, n, stats, long_ok=(comp == 0 or rng.chance(1, 4)))
    lines = ["reset", "w.new 1 " + cfg]
    adds = list(keys)
    unsorted = mode == "unsorted" or (mode == "mixed" and rng.chance(1, 3))
    if unsorted and adds:
        # insert refusals: duplicates, smaller keys, prefixes of the last key
        extra = []
        for k in adds:
            extra.append(k)
            r = rng.below(6)
            if r == 0:
                extra.append(k)
            elif r == 1:
                extra.append(rng.pick(adds))
            elif r == 2 and k:
                extra.append(k[:-1])
            elif r == 3:
                extra.append(gen_query_key(rng, adds))
        adds = extra
        stats.bump("tables_with_refusals")
    effbs = max(bs, 16 if small else 1024)
    for k in adds:
        lines.append("w.add 1 %s %s" % (hx(k), hx(gen_val(rng, stats, effbs))))
    lines.append("w.fin 1")
    lines.append("w.prefix 1")
    verify = rng.below(2)
    lines.append("r.openw 2 1 verify=%d madv=%d" % (verify, rng.below(2)))
    # full iteration
    lines.append("r.it 2 10 iter")
    for _ in range(len(keys) + 2):
        lines.append("r.next 10")
    # lookups
    iid = 11
    for _ in range(rng.pick([2, 4, 6])):
        kind = gen_kind(rng, keys, which=1 + rng.below(3))
        lines.append("r.it 2 %d %s" % (iid, kind_args(kind)))
        for _ in range(rng.pick([2, 3, len(keys) + 1])):
            lines.append("r.next %d" % iid)
        iid += 1
    # seek/next histories on all kinds, interleaved between two iterators
    for _ in range(rng.pick([1, 2, 3])):
        kind = gen_kind(rng, keys)
        lines.append("r.it 2 %d %s" % (iid, kind_args(kind)))
        cur = Cursor([(k, b"") for k in keys], kind)
        lines += history_ops(rng, "r", iid, cur, keys, rng.pick([4, 8, 12, 16]), stats)
        iid += 1
    return lines


def oracle_table(res, stats=None):
    """evaluate C01/C02/C03/C08/C10 directly on what the real code returned.  Returns list of (prop, message, index)"""
    fails = []
    writers = {}      # id -> dict(accepted=[(k,v)], last=None, count)
    readers = {}      # rid -> entries
    iters = {}        # iid -> Cursor or None (NULL iterator)
    for i, r in enumerate(res):
        t = r["req"].split(" "); op = t[0]; real = r["real"]
        for s in r.get("side", []):
            if s.startswith("#!"):
                fails.append(("C03", "runtime check: " + s[2:], i))
        if real == "asan":
            fails.append(("*", "AddressSanitizer report / crash: " + r.get("stderr", "")[-400:], i)); break
        if real.startswith("crash"):
            fails.append(("*", "process died: " + real, i)); break
        if op == "reset":
            writers, readers, iters = {}, {}, {}
        elif op == "w.new":
            kvs = dict(a.split("=", 1) for a in t[3:] if "=" in a) if len(t) > 3 else {}
            kvs = dict(a.split("=", 1) for a in t[2:] if "=" in a)
            writers[t[1]] = {"acc": [], "kv": kvs, "adds": 0}
        elif op == "w.add":
            w = writers[t[1]]; k, v = unhx(t[2]), unhx(t[3])
            expect_ok = (not w["acc"]) or k > w["acc"][-1][0]
            if real not in ("ok", "fail"):
                fails.append(("C08", "add ended in %s" % real, i)); break
            if (real == "ok") != expect_ok:
                fails.append(("C08", "add of %s after %s returned %s" % (t[2], hx(w["acc"][-1][0]) if w["acc"] else "nothing", real), i))
            if real == "ok":
                w["acc"].append((k, v))
        elif op == "w.fin":
            if not real.startswith("file "):
                fails.append(("C01", "finish ended in %s" % real, i)); break
            writers[t[1]]["file"] = unhx(real.split(" ")[1])
        elif op == "w.prefix":
            w = writers[t[1]]
            if real != "pre " + w["kv"].get("pre", "-"):
                fails.append(("C09", "foreign prefix bytes changed", i))
        elif op == "r.openw":
            w = writers[t[2]]
            if not real.startswith("ok "):
                fails.append(("C01", "written file does not open: %s" % real, i)); break
            readers[t[1]] = w["acc"]
            f = real.split(" ")
            acc = w["acc"]
            # C10: trailer statistics vs recount
            exp = {"entries": len(acc), "bk": sum(len(k) for k, _ in acc), "bv": sum(len(v) for _, v in acc)}
            got = {"entries": int(f[5]), "bk": int(f[9]), "bv": int(f[10])}
            if exp != got:
                fails.append(("C10", "trailer counts %s != recount %s" % (got, exp), i))
            if f[1] != "v2":
                fails.append(("C10", "format version " + f[1], i))
            if int(f[4]) != int(w["kv"].get("comp", "0")):
                fails.append(("C10", "compression field %s" % f[4], i))
            fl = w.get("file", b"")
            pre = len(unhx(w["kv"].get("pre", "-")))
            lay = walk_layout(fl, pre)
            if lay is None:
                fails.append(("C09", "file layout does not walk", i))
            else:
                nblocks, bytes_data, io, bytes_index = lay
                if (int(f[2]), int(f[6]), int(f[7]), int(f[8])) != (io, nblocks, bytes_data, bytes_index):
                    fails.append(("C10", "trailer (index_off, blocks, bytes_data, bytes_index)=%s layout=%s" %
                                  ((int(f[2]), int(f[6]), int(f[7]), int(f[8])), (io, nblocks, bytes_data, bytes_index)), i))
                minbs = int(w["kv"].get("minbs", "1024")); bs = int(w["kv"].get("bs", "8192"))
                if int(f[3]) != max(bs, minbs):
                    fails.append(("C10", "block size field %s" % f[3], i))
        elif op == "r.it":
            if t[1] not in readers:
                continue
            es = readers[t[1]]
            kind = parse_kind(t[3:])
            c = Cursor(es, kind)
            if real == "null":
                # a NULL iterator must be equivalent to an always-failing one: legal only if nothing is at/after the start
                if c.pos < len(es):
                    fails.append(("C02", "NULL iterator although entries exist at/after the start", i))
                iters[t[2]] = None
            elif real == "ok":
                iters[t[2]] = c
            else:
                fails.append(("C02", "iterator creation ended in %s" % real, i)); break
        elif op == "r.next":
            if t[1] not in iters:
                continue
            c = iters[t[1]]
            exp = c.next() if c is not None else None
            if exp is None:
                if real != "fail":
                    fails.append(("C03" if True else "", "next returned %s, expected failure" % real[:80], i))
            else:
                want = "ent %s %s" % (hx(exp[0]), hx(exp[1]))
                if real != want:
                    fails.append((classify_iter_fail(c), "next returned %s, expected %s" % (real[:80], want[:80]), i))
        elif op == "r.seek":
            if t[1] not in iters:
                continue
            c = iters[t[1]]
            if c is None:
                continue
            if real != "ok":
                fails.append(("C03", "seek returned %s" % real, i))
            c.seek(unhx(t[2])); c.seeked = True
    return fails


def classify_iter_fail(c):
    if getattr(c, "seeked", False):
        return "C03"
    return "C01" if c.kind[0] == "iter" else "C02"


def parse_kind(a):
    if a[0] == "iter":
        return ("iter",)
    if a[0] == "range":
        return ("range", unhx(a[1]), unhx(a[2]))
    return (a[0], unhx(a[1]))


def varint(b, off):
    v = 0; sh = 0; n = 0
    while off + n < len(b) and n < 10:
        c = b[off + n]; v |= (c & 0x7f) << sh; sh += 7; n += 1
        if c < 128:
            return v, n
    return None, 0


def walk_layout(f, pre_len_in_file_excluded):
    """f = bytes after the foreign prefix.  Walk the frames up to the index offset in the trailer.
    Returns (nblocks, bytes_data_blocks, index_offset_absolute, bytes_index_block) or None"""
    pre = pre_len_in_file_excluded
    if len(f) < 512:
        return None
    io_abs = int.from_bytes(f[-512:-504], "little")
    io = io_abs - pre
    off = 0; nb = 0
    while off < io:
        ln, n = varint(f, off)
        if ln is None or off + n + 4 + ln > io:
            return None
        off += n + 4 + ln; nb += 1
    if off != io:
        return None
    ln, n = varint(f, io)
    if ln is None or io + n + 4 + ln != len(f) - 512:
        return None
    return nb, io, io_abs, n + 4 + ln


# ---------------------------------------------------------------------------------------------
# merger family (C04, C05): sources = real tables or a user-defined poisoning source

def tok(si, ei):
    return bytes([0x40 + si, ei & 0xff])


def gen_merger_case(rng, stats, focus="C04"):
    ns = rng.pick([0, 1, 2, 2, 3, 3, 4, 6])
    universe = gen_keys(rng, rng.pick([1, 3, 6, 10, 16]), stats, long_ok=False)
    mode = rng.pick(["union", "union", "union", "none", "dupsort", "fail"])
    stats.bump("merger_mode_" + mode); stats.bump("merger_sources_%d" % ns)
    lines = ["reset"]
    srcs = []
    for si in range(ns):
        kind = "u" if rng.chance(1, 3) else "t"
        r = rng.below(5)
        if r == 0:
            ks = []
        elif r == 1:
            ks = list(universe)
        else:
            ks = [k for k in universe if rng.chance(1, 2)]
        if kind == "u" and mode in ("none", "dupsort") and ks and rng.chance(1, 2):
            ks = sorted(ks + [rng.pick(ks) for _ in range(rng.below(3))])   # duplicate keys inside one user source
        es = []
        for ei, k in enumerate(ks):
            v = tok(si, ei)
            if mode == "none":
                v = b"=="            # order among equal keys is unspecified without dupsort: give ties equal values
            es.append((k, v))
        if mode == "dupsort":
            es.sort()
        srcs.append((kind, es))
        stats.bump("merger_src_" + kind)
        if not es:
            stats.bump("merger_empty_source")
    allkeys = sorted(set(k for _, es in srcs for k, _ in es))
    failkey = None
    if mode == "fail":
        multi = [k for k in allkeys if sum(1 for _, es in srcs for kk, _ in es if kk == k) >= 2]
        failkey = rng.pick(multi) if multi and rng.chance(3, 4) else (rng.pick(allkeys) if allkeys else b"zz")
    marg = {"union": "merge=union", "none": "merge=none", "dupsort": "merge=none dupsort=1", "fail": "merge=fail:%s" % hx(failkey or b"")}[mode]
    lines.append("m.new 1 " + marg)
    for kind, es in srcs:
        lines.append("m.src 1 kind=%s bs=%d ri=%d %s" % (kind, rng.pick([16, 32, 64]), rng.pick([1, 2, 3]), " ".join("%s %s" % (hx(k), hx(v)) for k, v in es)))
    # drain
    total = sum(len(es) for _, es in srcs)
    lines.append("m.it 1 10 iter")
    for _ in range(total + 2):
        lines.append("m.next 10")
    iid = 11
    if focus == "C05" or rng.chance(1, 2):
        for _ in range(rng.pick([2, 4])):
            kind = gen_kind(rng, allkeys, which=1 + rng.below(3))
            lines.append("m.it 1 %d %s" % (iid, kind_args(kind)))
            for _ in range(rng.pick([2, 4, total + 1])):
                lines.append("m.next %d" % iid)
            iid += 1
        for _ in range(rng.pick([1, 2, 3])):
            kind = gen_kind(rng, allkeys)
            lines.append("m.it 1 %d %s" % (iid, kind_args(kind)))
            cur = Cursor([(k, b"") for k in allkeys], kind)
            lines += history_ops(rng, "m", iid, cur, allkeys, rng.pick([4, 8, 12, 16]), stats)
            iid += 1
    return lines


def merged_content(mode, srcs):
    """Spec: the merged view as a sorted entry list"""
    allents = [(k, v) for es in srcs for k, v in es]
    if mode in ("union", "fail"):
        out = {}
        for k, v in allents:
            out.setdefault(k, []).append(v)
        res = []
        for k in sorted(out):
            toks = sorted(t for v in out[k] for t in [v[i:i + 2] for i in range(0, len(v), 2)])
            res.append((k, b"".join(toks), len(out[k])))
        return res
    if mode == "dupsort":
        return [(k, v, 1) for k, v in sorted(allents)]
    return [(k, v, 1) for k, v in sorted(allents, key=lambda e: e[0])]


def oracle_merger(res):
    fails = []
    mergers, iters = {}, {}
    for i, r in enumerate(res):
        t = r["req"].split(" "); op = t[0]; real = r["real"]
        for s in r.get("side", []):
            if s.startswith("#!"):
                fails.append(("C04", "runtime check: " + s[2:], i))
        if real == "asan" or real.startswith("crash") or real == "abort":
            p = "C04"
            if op in ("m.next", "m.seek") and t[1] in iters and iters[t[1]] and (iters[t[1]].get("seeked") or iters[t[1]]["kind"][0] != "iter"):
                p = "C05"
            fails.append((p, "merger operation died: %s %s" % (real, r.get("stderr", "")[-300:]), i)); break
        if op == "reset":
            mergers, iters = {}, {}
        elif op == "m.new":
            kvs = dict(a.split("=", 1) for a in t[2:] if "=" in a)
            mg = kvs.get("merge", "none")
            mode = "union" if mg == "union" else "fail" if mg.startswith("fail:") else "dupsort" if kvs.get("dupsort") == "1" else "none"
            mergers[t[1]] = {"mode": mode, "failkey": unhx(mg[5:]) if mode == "fail" else None, "srcs": []}
        elif op == "m.src":
            vals = [a for a in t[2:] if "=" not in a]
            mergers[t[1]]["srcs"].append([(unhx(vals[j]), unhx(vals[j + 1])) for j in range(0, len(vals), 2)])
        elif op == "m.it":
            m = mergers[t[1]]
            content = merged_content(m["mode"], m["srcs"])
            kind = parse_kind(t[3:])
            c = Cursor([(k, v) for k, v, _ in content], kind)
            mult = {k: n for k, v, n in content}
            if real == "null":
                if kind[0] == "iter" or c.pos < len(content) and in_bound(kind, content[c.pos][0]):
                    fails.append(("C05" if kind[0] != "iter" else "C04", "NULL merger iterator although matching entries exist", i))
                iters[t[2]] = None
            else:
                iters[t[2]] = {"c": c, "kind": kind, "m": m, "mult": mult, "dead": False, "seeked": False}
        elif op == "m.next":
            it = iters.get(t[1], "missing")
            if it == "missing":
                continue
            prop = "C04"
            if it is None:
                if real != "fail":
                    fails.append(("C05", "next on a NULL iterator returned " + real[:60], i))
                continue
            if it["seeked"] or it["kind"][0] != "iter":
                prop = "C05"
            if it["dead"]:
                continue
            exp = it["c"].next()
            m = it["m"]
            if exp is not None and m["mode"] == "fail" and exp[0] == m["failkey"] and it["mult"].get(exp[0], 1) >= 2:
                if real != "fail":
                    fails.append(("C04", "merge callback failed while assembling %s but next returned %s" % (hx(exp[0]), real[:60]), i))
                it["dead"] = True      # state after a reported failure is not specified further
                continue
            if exp is None:
                if real != "fail":
                    fails.append((prop, "next returned %s, expected failure" % real[:80], i))
            else:
                want = "ent %s %s" % (hx(exp[0]), hx(exp[1]))
                if real != want:
                    fails.append((prop, "next returned %s, expected %s" % (real[:80], want[:80]), i))
        elif op == "m.seek":
            it = iters.get(t[1], "missing")
            if it in ("missing", None):
                continue
            if it["dead"]:
                continue
            if real != "ok":
                fails.append(("C05", "seek returned " + real, i))
            it["c"].seek(unhx(t[2])); it["seeked"] = True
    return fails
